package main

import (
	"fmt"
	"go/token"
	"sort"
	"strings"

	"golang.org/x/tools/go/ssa"
)

// A19: where the bits of the Aztec mode message go.
func ruleAztecModeDraw(c *Ctx) {
	const R = "A19-AZTEC-MODEDRAW"
	c.Doc(R, "aztec.drawModeMessage: with centre = size/2, a compact symbol sets, for i = 0..6, (centre-3+i, centre-5) iff bit i, (centre+5, centre-3+i) iff bit 7+i, (centre-3+i, centre+5) iff bit 20-i, (centre-5, centre-3+i) iff bit 27-i; a full-range symbol, for i = 0..9 with o = centre-5+i+i/5 (the reference grid line is skipped), (o, centre-7) iff bit i, (centre+7, o) iff bit 10+i, (o, centre+7) iff bit 29-i, (centre-7, o) iff bit 39-i; nothing else is set - every module write is enumerated per iteration with its own guard")
	c.Floor(R, 68)
	fn := c.theFunc(R, "aztec.drawModeMessage")
	if fn == nil {
		return
	}
	n := NewNormer(c.P)
	// parameters by role (the format may arrive as a flag or inside a small struct)
	for _, p := range fn.Params {
		switch {
		case namedTypeName(p.Type()) == "aztec.aztecCode":
			n.Bind[p] = "matrix"
		case namedTypeName(p.Type()) == "utils.BitList":
			n.Bind[p] = "mm"
		case isBoolType(p.Type()):
			n.Bind[p] = "compact"
		case isIntType(p.Type()):
			n.Bind[p] = "size"
		default:
			n.Bind[p] = "format"
		}
	}
	n.NoInline["utils.(*BitList).GetBit"] = true
	n.AtomAlias["matrix.size"] = "size" // the symbol knows its own size
	n.FoldTables = true
	setFn := c.P.Func("aztec.(*aztecCode).set")
	if setFn == nil {
		c.Anchor(R, "aztec.(*aztecCode).set", "function not found")
		return
	}
	type wr struct {
		x, y string
		cond *Cond
		pos  ssa.Instruction
		used bool
	}
	var got []*wr
	for _, site := range c.P.deepCallsTo(fn, setFn) {
		call := site.Ins.(*ssa.Call)
		if site.Fn != fn {
			c.Fn(c.P.FuncName(site.Fn))
		}
		saved := n.Ctx
		n.Ctx = site.Path
		insts, ok := n.loopInstances(call.Block())
		if !ok {
			c.Undecided(R, "aztec.drawModeMessage/loop@"+c.P.Pos(call.Pos()), call.Pos(), "module write inside a loop whose iterations cannot be enumerated")
			n.Ctx = saved
			continue
		}
		a := call.Common().Args
		for _, env := range insts {
			n.env = append(n.env, env)
			rc := n.ReachCondDeep(fn, nil, site)
			n.Ctx = site.Path
			if eq, _ := CondEquivalent(rc, cFalse); !eq {
				got = append(got, &wr{n.Norm(a[1]).String(), n.Norm(a[2]).String(), rc, call, false})
			}
			n.env = n.env[:len(n.env)-1]
		}
		n.Ctx = saved
	}
	// the format flag: the one boolean besides the message bits that the writes depend on
	flagName := "compact"
	{
		names := map[string]bool{}
		for _, g := range got {
			cv := &condVars{bases: map[string]map[int64]bool{}, bools: map[string]bool{}}
			collect(g.cond, cv)
			for nm := range cv.bools {
				if !strings.HasPrefix(nm, "call:utils.(*BitList).GetBit(") {
					names[nm] = true
				}
			}
		}
		if len(names) == 1 {
			for nm := range names {
				flagName = nm
			}
		}
	}
	compact := &Cond{Kind: CBool, Name: flagName}
	bit := func(k int) *Cond {
		return &Cond{Kind: CBool, Name: fmt.Sprintf("call:utils.(*BitList).GetBit(mm,%d)", k)}
	}
	at := func(d int) string { return MustRef(fmt.Sprintf("size/2 + %d", d)).String() }
	type exp struct {
		key  string
		x, y string
		cond *Cond
	}
	var want []exp
	for i := 0; i < 7; i++ {
		o := -3 + i
		want = append(want,
			exp{fmt.Sprintf("compact/top/%d", i), at(o), at(-5), cAnd(compact, bit(i))},
			exp{fmt.Sprintf("compact/right/%d", i), at(5), at(o), cAnd(compact, bit(7+i))},
			exp{fmt.Sprintf("compact/bottom/%d", i), at(o), at(5), cAnd(compact, bit(20-i))},
			exp{fmt.Sprintf("compact/left/%d", i), at(-5), at(o), cAnd(compact, bit(27-i))})
	}
	for i := 0; i < 10; i++ {
		o := -5 + i + i/5
		want = append(want,
			exp{fmt.Sprintf("full/top/%d", i), at(o), at(-7), cAnd(cNot(compact), bit(i))},
			exp{fmt.Sprintf("full/right/%d", i), at(7), at(o), cAnd(cNot(compact), bit(10+i))},
			exp{fmt.Sprintf("full/bottom/%d", i), at(o), at(7), cAnd(cNot(compact), bit(29-i))},
			exp{fmt.Sprintf("full/left/%d", i), at(-7), at(o), cAnd(cNot(compact), bit(39-i))})
	}
	for _, w := range want {
		// the writes to this module in this format, taken together
		format := compact
		if strings.HasPrefix(w.key, "full/") {
			format = cNot(compact)
		}
		total := cFalse
		var pos ssa.Instruction
		for _, g := range got {
			if g.x == w.x && g.y == w.y {
				if eq, _ := CondEquivalent(cAnd(g.cond, format), cFalse); eq {
					continue
				}
				total = cOr(total, cAnd(g.cond, format))
				g.used = true
				pos = g.pos
			}
		}
		p := fn.Pos()
		if pos != nil {
			p = pos.Pos()
		}
		c.expectCondC(R, "aztec.drawModeMessage/"+w.key, p, total, w.cond)
	}
	for _, g := range got {
		if !g.used {
			c.Check(R, fmt.Sprintf("aztec.drawModeMessage/extra(%s,%s)", g.x, g.y), g.pos.Pos(), false, "only the mode message modules", fmt.Sprintf("set(%s, %s) when %s", g.x, g.y, g.cond))
		}
	}
}

// A20: bullseye and orientation marks.
func ruleAztecBullsEye(c *Ctx) {
	const R = "A20-AZTEC-BULLSEYE"
	c.Doc(R, "aztec.drawBullsEye(matrix, centre, size): for every even i from 0 below size the square ring at distance i from the centre is drawn completely - (j, centre-i), (j, centre+i), (centre-i, j), (centre+i, j) for j = centre-i .. centre+i; the six orientation marks are (c-s, c-s), (c-s+1, c-s), (c-s, c-s+1), (c+s, c-s), (c+s, c-s+1), (c+s, c+s-1); EncodeWithColor calls it with centre = matrixSize/2 and size 5 for compact, 7 for full-range symbols")
	c.Floor(R, 12)
	fn := c.theFunc(R, "aztec.drawBullsEye")
	if fn == nil || len(fn.Params) != 3 {
		return
	}
	n := NewNormer(c.P)
	n.BindParams(fn, "matrix", "c", "s")
	setFn := c.P.Func("aztec.(*aztecCode).set")
	var got []string
	posOf := map[string]ssa.Instruction{}
	for _, site := range c.P.deepCallsTo(fn, setFn) {
		call := site.Ins.(*ssa.Call)
		savedCtx := n.Ctx
		n.Ctx = site.Path
		if site.Fn != fn {
			c.Fn(c.P.FuncName(site.Fn))
		}
		var hdrs []*ssa.BasicBlock
		for d := call.Block(); d != nil; d = d.Idom() {
			inLoop := false
			for _, p := range d.Preds {
				if d.Dominates(p) && (p == call.Block() || reachableWithin(d, call.Block(), p)) {
					inLoop = true
				}
			}
			if inLoop {
				hdrs = append(hdrs, d)
			}
		}
		names := []string{"a", "b", "c2"}
		var loops []string
		var bound []ssa.Value
		for k := len(hdrs) - 1; k >= 0; k-- {
			idx, init, step, ok := loopShape(n, hdrs[k])
			if !ok || len(hdrs)-1-k >= len(names) {
				loops = append(loops, "?")
				continue
			}
			nm := names[len(hdrs)-1-k]
			n.Bind[idx] = nm
			bound = append(bound, idx)
			loops = append(loops, fmt.Sprintf("%s from %s step %s while %s", nm, init, step, n.LoopCond(hdrs[k])))
		}
		a := call.Common().Args
		if insts, okI := n.loopInstances(call.Block()); okI && len(hdrs) > 0 {
			// loops with a fixed number of iterations (the marks kept in a small table): one write per
			// iteration
			for _, v := range bound {
				delete(n.Bind, v)
			}
			savedFold := n.FoldTables
			n.FoldTables = true
			for _, env := range insts {
				n.env = append(n.env, env)
				guard := n.ReachCond(site.Fn, nil, call.Block())
				sig := fmt.Sprintf("set(%s, %s) in []", n.Norm(a[1]), n.Norm(a[2]))
				if eq, _ := CondEquivalent(guard, cTrue); !eq {
					sig += " when " + guard.String()
				}
				got = append(got, sig)
				posOf[sig] = call
				n.env = n.env[:len(n.env)-1]
			}
			n.FoldTables = savedFold
			n.Ctx = savedCtx
			continue
		}
		// the condition inside the innermost loop body (or from the entry for the marks)
		var from *ssa.BasicBlock
		if len(hdrs) > 0 {
			from = n.BodyStart(hdrs[0])
		}
		guard := n.ReachCond(site.Fn, from, call.Block())
		sig := fmt.Sprintf("set(%s, %s) in [%s]", n.Norm(a[1]), n.Norm(a[2]), strings.Join(loops, "; "))
		if eq, _ := CondEquivalent(guard, cTrue); !eq && len(hdrs) > 0 {
			sig += " when " + guard.String()
		}
		got = append(got, sig)
		posOf[sig] = call
		for _, v := range bound {
			delete(n.Bind, v)
		}
		n.Ctx = savedCtx
	}
	sort.Strings(got)
	pl := func(s string) string { return MustRef(s).String() }
	cnd := func(s string) string { return MustRefCond(s).String() }
	ring := fmt.Sprintf("[a from 0 step 2 while %s; b from %s step 1 while %s]", cnd("a < s"), pl("c - a"), cnd("b <= c + a"))
	want := []string{
		fmt.Sprintf("set(b, %s) in %s", pl("c - a"), ring),
		fmt.Sprintf("set(b, %s) in %s", pl("c + a"), ring),
		fmt.Sprintf("set(%s, b) in %s", pl("c - a"), ring),
		fmt.Sprintf("set(%s, b) in %s", pl("c + a"), ring),
		fmt.Sprintf("set(%s, %s) in []", pl("c - s"), pl("c - s")),
		fmt.Sprintf("set(%s, %s) in []", pl("c - s + 1"), pl("c - s")),
		fmt.Sprintf("set(%s, %s) in []", pl("c - s"), pl("c - s + 1")),
		fmt.Sprintf("set(%s, %s) in []", pl("c + s"), pl("c - s")),
		fmt.Sprintf("set(%s, %s) in []", pl("c + s"), pl("c - s + 1")),
		fmt.Sprintf("set(%s, %s) in []", pl("c + s"), pl("c + s - 1")),
	}
	sort.Strings(want)
	gotSet := map[string]bool{}
	for _, g := range got {
		gotSet[g] = true
	}
	wantSet := map[string]bool{}
	for i, w := range want {
		wantSet[w] = true
		c.Check(R, fmt.Sprintf("aztec.drawBullsEye/write#%d", i+1), fn.Pos(), gotSet[w], w, map[bool]string{true: "present", false: "missing; found: " + strings.Join(got, " | ")}[gotSet[w]])
	}
	for _, g := range got {
		if !wantSet[g] {
			c.Check(R, "aztec.drawBullsEye/extra:"+g, posOf[g].Pos(), false, "only the rings and the six orientation marks", g)
		}
	}
	// the marks are unconditional
	for _, site := range c.P.deepCallsTo(fn, setFn) {
		call := site.Ins.(*ssa.Call)
		if enclosingLoopHeader(call.Block()) == nil && site.Fn == fn {
			c.expectCond(R, "aztec.drawBullsEye/mark-always@"+c.P.Pos(call.Pos()), call.Pos(), n.ReachCond(fn, loopExitOrEntry(fn, call.Block()), call.Block()), "true")
		}
	}
}

// checkAztecDrawCalls (part of A20, run with the normaliser of the sizing rule: cf = compact flag,
// Lf = final layer count): what EncodeWithColor hands to the two drawing routines.
func checkAztecDrawCalls(c *Ctx, n *Normer, enc *ssa.Function, join *ssa.BasicBlock, sizeV ssa.Value) {
	const R = "A20-AZTEC-BULLSEYE"
	be := c.P.Func("aztec.drawBullsEye")
	dm := c.P.Func("aztec.drawModeMessage")
	if be == nil || dm == nil || sizeV == nil {
		c.Anchor(R, "aztec.EncodeWithColor/draw-calls", "drawBullsEye / drawModeMessage / symbol construction not found")
		return
	}
	sizeAtom := n.Norm(sizeV).asAtom()
	half := "Div(" + sizeAtom + ",2)"
	var success *Cond
	for _, ret := range returnsOf(enc) {
		if len(ret.Results) == 2 && isNilConst(ret.Results[1]) && join.Dominates(ret.Block()) {
			success = n.ReachCond(enc, join, ret.Block())
		}
	}
	if success == nil {
		c.Undecided(R, "aztec.EncodeWithColor/success-return", enc.Pos(), "no successful return after the size selection")
		return
	}
	sizes := map[int64]*Cond{}
	sites := c.P.deepCallsTo(enc, be)
	for _, site := range sites {
		call := site.Ins.(*ssa.Call)
		a := call.Common().Args
		saved := n.Ctx
		n.Ctx = site.Path
		c.Check(R, "aztec.EncodeWithColor/bullseye-centre@"+c.P.Pos(call.Pos()), call.Pos(), n.Norm(a[1]).asAtom() == half, "centre = matrixSize/2", n.Norm(a[1]).String())
		rc := n.ReachCondDeep(enc, join, site)
		n.Ctx = site.Path
		for _, cs := range n.valueCases(site.Fn, nil, a[2], 0) {
			k, isK := cs.val.IsConst()
			if !isK {
				c.Check(R, "aztec.EncodeWithColor/bullseye-size@"+c.P.Pos(call.Pos()), call.Pos(), false, "5 (compact) or 7 (full range)", cs.val.String())
				continue
			}
			if sizes[k] == nil {
				sizes[k] = cFalse
			}
			sizes[k] = cOr(sizes[k], cAnd(rc, cs.cond))
		}
		n.Ctx = saved
	}
	var ks []int64
	for k := range sizes {
		ks = append(ks, k)
	}
	sort.Slice(ks, func(i, j int) bool { return ks[i] < ks[j] })
	c.Check(R, "aztec.EncodeWithColor/bullseye-sizes", enc.Pos(), len(ks) == 2 && ks[0] == 5 && ks[1] == 7, "sizes 5 and 7", fmt.Sprint(ks))
	if len(ks) == 2 && ks[0] == 5 && ks[1] == 7 {
		cf := &Cond{Kind: CBool, Name: "cf"}
		c.expectCondC(R, "aztec.EncodeWithColor/bullseye-5-iff", enc.Pos(), sizes[5], cAnd(success, cf))
		c.expectCondC(R, "aztec.EncodeWithColor/bullseye-7-iff", enc.Pos(), sizes[7], cAnd(success, cNot(cf)))
	}
	// the mode message: drawn once on every successful path, into the symbol, with the compact flag,
	// the symbol size and the message generateModeMessage produced
	msites := c.P.deepCallsTo(enc, dm)
	total := cFalse
	for _, site := range msites {
		call := site.Ins.(*ssa.Call)
		a := call.Common().Args
		saved := n.Ctx
		n.Ctx = site.Path
		total = cOr(total, n.ReachCondDeep(enc, join, site))
		n.Ctx = site.Path
		msg := ""
		for _, av := range a {
			if namedTypeName(av.Type()) != "utils.BitList" {
				continue
			}
			if mc, ok := av.(*ssa.Call); ok && calleeOf(mc) != nil {
				msg = c.P.FuncName(calleeOf(mc))
			}
		}
		// by role: the flag (or the flag inside a small struct built for the call), the size, the message
		flag, size := "?", "?"
		for _, av := range a {
			switch {
			case isBoolType(av.Type()):
				flag = n.CondOf(av).String()
			case isIntType(av.Type()):
				size = n.Norm(av).asAtom()
			}
			if ld, ok := av.(*ssa.UnOp); ok {
				if al, ok := ld.X.(*ssa.Alloc); ok {
					if stores, _, escapes := storesTo(al); !escapes {
						for _, st := range stores {
							if isBoolType(st.Val.Type()) {
								flag = n.CondOf(st.Val).String()
							}
						}
					}
				}
			}
		}
		if size == "?" {
			// no size handed over: the routine reads it from the symbol, which was built with it
			for _, av := range a {
				if mc, ok := av.(*ssa.Call); ok && calleeOf(mc) != nil && c.P.FuncName(calleeOf(mc)) == "aztec.newAztecCode" && mc.Common().Args[0] == sizeV {
					size = sizeAtom
				}
			}
		}
		got := fmt.Sprintf("(%s, %s, %s)", flag, size, msg)
		want := fmt.Sprintf("(%s, %s, %s)", "cf", sizeAtom, "aztec.generateModeMessage")
		c.Check(R, "aztec.EncodeWithColor/modedraw-args@"+c.P.Pos(call.Pos()), call.Pos(), got == want, want, got)
		n.Ctx = saved
	}
	c.expectCondC(R, "aztec.EncodeWithColor/modedraw-always", enc.Pos(), total, success)
}

// loopExitOrEntry: the block from which a statement after the loops of fn is conditionally reached -
// nil (the entry) here; kept as a function so that the marks are judged relative to the entry.
func loopExitOrEntry(fn *ssa.Function, blk *ssa.BasicBlock) *ssa.BasicBlock { return nil }

func init() {
	register("C03", ruleAztecModeDraw, ruleAztecBullsEye)
	register("C12", ruleAztecModeDraw)
}

// R9: what a digit value is tested for.
func ruleDigitTest(c *Ctx) {
	const R = "R9-DIGIT-TEST"
	c.Doc(R, "a result of utils.RuneToInt (-1 for a non-digit, else 0..9) compared with a constant is a validity test: the comparison has the same outcome for all ten digit values (x < 0, x == -1, x >= 0 ...); a comparison that separates digits from each other (x <= 0, x > 0, x < 1) rejects or accepts by the digit's value - none exists in the library")
	c.Floor(R, 3)
	target := c.P.Func("utils.RuneToInt")
	if target == nil {
		c.Anchor(R, "utils.RuneToInt", "function not found")
		return
	}
	for _, fn := range c.P.Funcs {
		if !isRepoFunc(fn) || fn.Blocks == nil {
			continue
		}
		k := 0
		for _, call := range callsTo(fn, target) {
			k++
			c.Fn(c.P.FuncName(fn))
			key := fmt.Sprintf("%s/RuneToInt#%d", c.P.FuncName(fn), k)
			bad := ""
			tests := 0
			seen := map[ssa.Value]bool{}
			var visit func(v ssa.Value, depth int)
			visit = func(v ssa.Value, depth int) {
				if seen[v] || depth > 2 {
					return
				}
				seen[v] = true
				refs := v.Referrers()
				if refs == nil {
					return
				}
				for _, r := range *refs {
					switch x := r.(type) {
					case *ssa.Convert:
						visit(x, depth+1)
					case *ssa.Store:
						// kept in a local that is read back (a named result, a variable assigned in branches)
						if al, ok := x.Addr.(*ssa.Alloc); ok && x.Val == v {
							for _, rr := range *al.Referrers() {
								if ld, ok := rr.(*ssa.UnOp); ok && ld.Op == token.MUL {
									visit(ld, depth+1)
								}
							}
						}
					case *ssa.BinOp:
						var kc *ssa.Const
						flip := false
						if cc, ok := x.Y.(*ssa.Const); ok && x.X == v {
							kc = cc
						} else if cc, ok := x.X.(*ssa.Const); ok && x.Y == v {
							kc, flip = cc, true
						}
						if kc == nil {
							continue
						}
						kv, okK := constInt(kc)
						if !okK {
							continue
						}
						switch x.Op {
						case token.LSS, token.LEQ, token.GTR, token.GEQ, token.EQL, token.NEQ:
						default:
							continue
						}
						tests++
						eval := func(d int64) bool {
							a, b := d, int64(kv)
							if flip {
								a, b = b, a
							}
							switch x.Op {
							case token.LSS:
								return a < b
							case token.LEQ:
								return a <= b
							case token.GTR:
								return a > b
							case token.GEQ:
								return a >= b
							case token.EQL:
								return a == b
							}
							return a != b
						}
						first := eval(0)
						for d := int64(1); d <= 9; d++ {
							if eval(d) != first {
								bad = fmt.Sprintf("%s %s %d at %s separates digit values", "RuneToInt(..)", x.Op, kv, c.P.Pos(x.Pos()))
							}
						}
					}
				}
			}
			visit(call, 0)
			c.Check(R, key, call.Pos(), bad == "", "constant comparisons of the result only test validity", orOK(bad)+fmt.Sprintf(" (%d constant comparisons)", tests))
		}
	}
}

func init() {
	register("C06", ruleDigitTest)
	register("C08", ruleDigitTest)
	register("C04", ruleDigitTest)
	register("C10", ruleDigitTest)
	register("C14", ruleDigitTest)
}

func init() {
	// the plain wrappers forward the caller's options (layers, percentages, flags) to the variants
	// the encoder properties talk about; the colour handed to an encoder is part of the image it returns
	for _, p := range []string{"C01", "C02", "C03", "C04", "C05", "C06", "C08", "C11", "C12", "C13", "C14"} {
		register(p, ruleEntryPoints)
	}
	for _, p := range []string{"C01", "C02", "C03", "C04"} {
		register(p, ruleColor)
	}
	register("C11", ruleCodabarValidation)
}

// checkAztecDataLayout (A21, run with the normaliser of the sizing rule): where the message bits go.
func checkAztecDataLayout(c *Ctx, n *Normer, enc *ssa.Function) {
	const R = "A21-AZTEC-DATALAYOUT"
	c.Doc(R, "aztec.EncodeWithColor data layout: for layer i = 0..layers-1 (rowSize = 4*(layers-i) + 9 compact / 12 full range, rowOffset starting at 0 and growing by 8*rowSize per layer), j = 0..rowSize-1, k = 0..1: message bit rowOffset + s*2*rowSize + 2j + k (s = side 0..3) sets, through the alignment map, (2i+k, 2i+j), (2i+j, base-1-2i-k), (base-1-2i-k, base-1-2i-j), (base-1-2i-j, 2i+k) with base = 11|14 + 4*layers; the bits are those generateCheckWords returned; nothing else is drawn inside the layer loops")
	c.Floor(R, 5)
	setFn := c.P.Func("aztec.(*aztecCode).set")
	if setFn == nil {
		c.Anchor(R, "aztec.(*aztecCode).set", "function not found")
		return
	}
	n.NoInline["utils.(*BitList).GetBit"] = true
	defer delete(n.NoInline, "utils.(*BitList).GetBit")
	savedCtx := n.Ctx
	defer func() { n.Ctx = savedCtx }()
	var extra []ssa.Value
	defer func() {
		for _, v := range extra {
			delete(n.Bind, v)
		}
	}()
	// roles: the message bits
	eachInstr(enc, func(b *ssa.BasicBlock, ins ssa.Instruction) {
		if x, ok := ins.(*ssa.Call); ok && calleeOf(x) != nil && c.P.FuncName(calleeOf(x)) == "aztec.generateCheckWords" {
			if _, bound := n.Bind[x]; !bound {
				n.Bind[x] = "mb"
				extra = append(extra, x)
			}
		}
	})
	cf := &Cond{Kind: CBool, Name: "cf"}
	// a value that is `whenCompact` for compact symbols and `otherwise` for full-range ones gets a role name
	bindByCases := func(F *ssa.Function, name string, whenCompact, otherwise string) []ssa.Value {
		var out []ssa.Value
		eachInstr(F, func(b *ssa.BasicBlock, ins ssa.Instruction) {
			v, ok := ins.(ssa.Value)
			if !ok || !isIntType(v.Type()) {
				return
			}
			switch v.(type) {
			case *ssa.Phi, *ssa.Call, *ssa.Extract:
			default:
				return
			}
			if _, bound := n.Bind[v]; bound {
				return
			}
			cs := n.valueCases(F, nil, v, 0)
			if len(cs) != 2 {
				return
			}
			for k := range cs {
				if pEqual(cs[k].val, MustRef(whenCompact)) && pEqual(cs[1-k].val, MustRef(otherwise)) {
					if eq, _ := CondEquivalent(cs[k].cond, cf); eq {
						n.Bind[v] = name
						out = append(out, v)
					}
				}
			}
		})
		return out
	}
	type wr struct {
		x, y  string
		guard *Cond
		pos   ssa.Instruction
		used  bool
	}
	var got []*wr
	loopsSig := ""
	arrays := map[string]bool{}
	for _, site := range c.P.deepCallsTo(enc, setFn) {
		call := site.Ins.(*ssa.Call)
		F := site.Fn
		if nm := c.P.FuncName(F); nm == "aztec.drawBullsEye" || nm == "aztec.drawModeMessage" {
			continue // drawing routines with rules of their own
		}
		var hdrs []*ssa.BasicBlock
		for d := call.Block(); d != nil; d = d.Idom() {
			inLoop := false
			for _, p := range d.Preds {
				if d.Dominates(p) && (p == call.Block() || reachableWithin(d, call.Block(), p)) {
					inLoop = true
				}
			}
			if inLoop {
				hdrs = append(hdrs, d)
			}
		}
		if len(hdrs) != 3 {
			continue // the reference grid (two loops) is A9's subject
		}
		n.Ctx = savedCtx
		bound := bindByCases(enc, "base", "11 + 4*Lf", "14 + 4*Lf")
		n.Ctx = site.Path
		if F != enc {
			c.Fn(c.P.FuncName(F))
			bound = append(bound, bindByCases(F, "base", "11 + 4*Lf", "14 + 4*Lf")...)
		}
		names := []string{"i", "j", "k"}
		var loops []string
		for k := len(hdrs) - 1; k >= 0; k-- {
			nm := names[len(hdrs)-1-k]
			shapes := loopShapes(n, hdrs[k])
			if len(shapes) == 0 {
				loops = append(loops, "?")
				continue
			}
			n.Bind[shapes[0].idx] = nm
			bound = append(bound, shapes[0].idx)
			if nm == "i" {
				// the row size of this layer, and the running offset
				bound = append(bound, bindByCases(F, "rs", "4*(Lf - i) + 9", "4*(Lf - i) + 12")...)
				for _, lv := range shapes[1:] {
					if p, ok := lv.idx.(*ssa.Phi); ok {
						n.Bind[p] = "ro"
						bound = append(bound, p)
						step := Poly{}
						for ei, e := range p.Edges {
							if hdrs[k].Dominates(hdrs[k].Preds[ei]) {
								step = pAdd(n.Norm(e), pAtom("ro"), -1)
							}
						}
						loops = append(loops, fmt.Sprintf("ro from %s step %s", lv.init, step))
					}
				}
			}
			loops = append(loops, fmt.Sprintf("%s from %s step %s while %s", nm, shapes[0].init, shapes[0].step, n.LoopCond(hdrs[k])))
		}
		a := call.Common().Args
		guard := n.ReachCond(F, n.BodyStart(hdrs[0]), call.Block())
		// the table the coordinates are read from, by role
		coord := func(v ssa.Value) string {
			s := canonAccess(n.Norm(v).String())
			if strings.HasSuffix(s, "]") {
				depth := 0
				for q := len(s) - 1; q >= 0; q-- {
					if s[q] == ']' {
						depth++
					} else if s[q] == '[' {
						depth--
						if depth == 0 {
							arrays[s[:q]] = true
							return "am" + s[q:]
						}
					}
				}
			}
			return s
		}
		got = append(got, &wr{coord(a[1]), coord(a[2]), guard, call, false})
		ls := strings.Join(loops, "; ")
		if loopsSig == "" {
			loopsSig = ls
		} else if loopsSig != ls {
			c.Check(R, "aztec.EncodeWithColor/data-loops@"+c.P.Pos(call.Pos()), call.Pos(), false, "all four sides in the same loops", ls)
		}
		for _, v := range bound {
			delete(n.Bind, v)
		}
		n.Ctx = savedCtx
	}
	pl := func(s string) string { return MustRef(s).String() }
	am := func(s string) string { return "am[" + pl(s) + "]" }
	bitAt := func(s string) *Cond {
		return &Cond{Kind: CBool, Name: "call:utils.(*BitList).GetBit(mb," + pl(s) + ")"}
	}
	want := []struct {
		x, y string
		bit  *Cond
	}{
		{am("2*i + k"), am("2*i + j"), bitAt("ro + 2*j + k")},
		{am("2*i + j"), am("base - 1 - 2*i - k"), bitAt("ro + 2*rs + 2*j + k")},
		{am("base - 1 - 2*i - k"), am("base - 1 - 2*i - j"), bitAt("ro + 4*rs + 2*j + k")},
		{am("base - 1 - 2*i - j"), am("2*i + k"), bitAt("ro + 6*rs + 2*j + k")},
	}
	for k, w := range want {
		total := cFalse
		var pos ssa.Instruction
		for _, g := range got {
			if g.x == w.x && g.y == w.y {
				total = cOr(total, g.guard)
				g.used = true
				pos = g.pos
			}
		}
		p := enc.Pos()
		if pos != nil {
			p = pos.Pos()
		}
		key := fmt.Sprintf("aztec.EncodeWithColor/data-side%d", k)
		if pos == nil {
			var all []string
			for _, g := range got {
				all = append(all, fmt.Sprintf("set(%s, %s) when %s", g.x, g.y, g.guard))
			}
			c.Check(R, key, p, false, fmt.Sprintf("set(%s, %s) when %s", w.x, w.y, w.bit), "missing; found: "+strings.Join(all, " | "))
			continue
		}
		c.expectCondC(R, key, p, total, w.bit)
	}
	for _, g := range got {
		if !g.used {
			c.Check(R, "aztec.EncodeWithColor/data-extra@"+c.P.Pos(g.pos.Pos()), g.pos.Pos(), false, "only the four sides of each layer", fmt.Sprintf("set(%s, %s) when %s", g.x, g.y, g.guard))
		}
	}
	c.Check(R, "aztec.EncodeWithColor/data-map", enc.Pos(), len(arrays) == 1, "all coordinates read from one table (the alignment map)", fmt.Sprint(len(arrays))+" tables")
	wantLoops := fmt.Sprintf("ro from 0 step %s; i from 0 step 1 while %s; j from 0 step 1 while %s; k from 0 step 1 while %s", pl("8*rs"), MustRefCond("i < Lf"), MustRefCond("j < rs"), MustRefCond("k < 2"))
	c.Check(R, "aztec.EncodeWithColor/data-loops", enc.Pos(), loopsSig == wantLoops, wantLoops, loopsSig)
}

// R10: the two digit helpers everything numeric goes through.
func ruleRuneInt(c *Ctx) {
	const R = "R10-RUNEINT"
	c.Doc(R, "utils.RuneToInt(r) is r-'0' for '0' <= r <= '9' and -1 for every other rune (tabulated over the ASCII neighbours, all ten digits, Latin-1, runes whose low byte is an ASCII digit, non-ASCII decimal digits and the largest rune); utils.IntToRune(i) is '0'+i for 0 <= i <= 9 and 'F' otherwise (tabulated over -2..16 and 255, 256) - evaluated return by return with the argument substituted, whatever form the functions take (range test, table)")
	c.Floor(R, 40)
	tab := func(name string, args []int64, want func(int64) int64) {
		fn := c.theFunc(R, name)
		if fn == nil || len(fn.Params) != 1 {
			return
		}
		for _, a := range args {
			key := fmt.Sprintf("%s(%d)", name, a)
			n := NewNormer(c.P)
			n.FoldTables = true
			n.env = append(n.env, map[ssa.Value]Poly{fn.Params[0]: pConst(a)})
			var hit *ssa.Return
			undecided := ""
			for _, ret := range returnsOf(fn) {
				rc := n.ReachCond(fn, nil, ret.Block())
				if eq, _ := CondEquivalent(rc, cFalse); eq {
					continue
				}
				if eq, _ := CondEquivalent(rc, cTrue); !eq {
					undecided = rc.String()
					continue
				}
				if hit != nil {
					undecided = "two returns reachable"
				}
				hit = ret
			}
			if hit == nil || undecided != "" {
				c.Undecided(R, key, fn.Pos(), "which return is taken is not decided by the argument: "+undecided)
				continue
			}
			got := "?"
			for _, cs := range n.valueCases(fn, nil, hit.Results[0], 0) {
				if eq, _ := CondEquivalent(cs.cond, cFalse); eq {
					continue
				}
				got = cs.val.String()
			}
			c.Check(R, key, hit.Pos(), got == fmt.Sprint(want(a)), fmt.Sprint(want(a)), got)
		}
	}
	tab("utils.RuneToInt", []int64{-1, 0, 47, 48, 49, 50, 51, 52, 53, 54, 55, 56, 57, 58, 65, 127, 128, 255, 304, 313, 560, 1632, 1641, 65296, 120782, 1114111}, func(r int64) int64 {
		if r >= 48 && r <= 57 {
			return r - 48
		}
		return -1
	})
	tab("utils.IntToRune", []int64{-2, -1, 0, 1, 2, 3, 4, 5, 6, 7, 8, 9, 10, 11, 15, 16, 255, 256}, func(i int64) int64 {
		if i >= 0 && i <= 9 {
			return 48 + i
		}
		return 70
	})
}

func init() {
	for _, p := range []string{"C04", "C06", "C08", "C10", "C13", "C14"} {
		register(p, ruleRuneInt)
	}
}

// M8: polynomials are values - operations build their result in memory of their own.
func ruleGFPolyFresh(c *Ctx) {
	const R = "M8-GFPOLY-FRESH"
	c.Doc(R, "every element store in the GFPoly operations and the Reed-Solomon encoder (utils/gfpoly.go, utils/reedsolomon.go) goes into a slice the function allocated itself (make, a literal, append onto such a slice) on every path - never into the coefficients of the receiver, of an argument or of a cached polynomial (the generator polynomials are shared between calls and goroutines)")
	c.Floor(R, 4)
	var fresh func(v ssa.Value, seen map[ssa.Value]bool, depth int) (bool, string)
	fresh = func(v ssa.Value, seen map[ssa.Value]bool, depth int) (bool, string) {
		if seen[v] {
			return true, ""
		}
		seen[v] = true
		if depth > 12 {
			return false, "too deep"
		}
		switch x := v.(type) {
		case *ssa.MakeSlice:
			return true, ""
		case *ssa.Alloc:
			return true, ""
		case *ssa.Slice:
			return fresh(x.X, seen, depth+1)
		case *ssa.ChangeType:
			return fresh(x.X, seen, depth+1)
		case *ssa.Phi:
			for _, e := range x.Edges {
				if ok, why := fresh(e, seen, depth+1); !ok {
					return false, why
				}
			}
			return true, ""
		case *ssa.Call:
			if bi, ok := x.Common().Value.(*ssa.Builtin); ok && bi.Name() == "append" {
				// append may write into the first argument's spare capacity
				return fresh(x.Common().Args[0], seen, depth+1)
			}
			return false, "result of " + x.String()
		case *ssa.Const:
			return true, "" // nil
		}
		return false, fmt.Sprintf("%T %s", v, v.String())
	}
	for _, fn := range c.P.Funcs {
		if fn.Pkg == nil || shortName(fn.Pkg.Pkg.Path()) != "utils" || fn.Blocks == nil {
			continue
		}
		file := c.P.Pos(fn.Pos())
		if !strings.Contains(file, "gfpoly.go") && !strings.Contains(file, "reedsolomon.go") {
			continue
		}
		k := 0
		eachInstr(fn, func(b *ssa.BasicBlock, ins ssa.Instruction) {
			st, ok := ins.(*ssa.Store)
			if !ok {
				return
			}
			ia, ok := st.Addr.(*ssa.IndexAddr)
			if !ok {
				return
			}
			k++
			c.Fn(c.P.FuncName(fn))
			okF, why := fresh(ia.X, map[ssa.Value]bool{}, 0)
			c.Check(R, fmt.Sprintf("%s/store#%d", c.P.FuncName(fn), k), st.Pos(), okF, "into a slice allocated by this function", orOK(why))
		})
		// copy(dst, ...) likewise
		eachInstr(fn, func(b *ssa.BasicBlock, ins ssa.Instruction) {
			call, ok := ins.(*ssa.Call)
			if !ok {
				return
			}
			if bi, isB := call.Common().Value.(*ssa.Builtin); isB && bi.Name() == "copy" {
				k++
				okF, why := fresh(call.Common().Args[0], map[ssa.Value]bool{}, 0)
				c.Check(R, fmt.Sprintf("%s/copy#%d", c.P.FuncName(fn), k), call.Pos(), okF, "into a slice allocated by this function", orOK(why))
			}
		})
	}
}

func init() {
	for _, p := range []string{"C01", "C02", "C03", "C12", "C15", "C16", "C17"} {
		register(p, ruleGFPolyFresh)
	}
}

func init() {
	// shared code registered for further properties it serves: a bit list that loses or misreads bits
	// makes an encoder panic or reject (C10) and changes what is drawn and reported (C11 - C14); the
	// 1D base code carries the colour scheme Scale pads with (C09) and the check value (C14); the
	// scaled image is an image with bounds, colours and content of its own (C11)
	for _, p := range []string{"C09", "C10", "C11", "C12", "C13", "C14"} {
		register(p, ruleBitList, ruleBitListState)
	}
	register("C09", rule1DConstructors) // (C07, C11 and C14 have the same obligations through the check-value storage rule)
	register("C11", ruleScale)
}
