package main

import (
	"fmt"
	"go/token"
	"go/types"
	"sort"
	"strings"

	"golang.org/x/tools/go/ssa"
)

// callSig renders a call as callee(arg normal forms) for comparison with an expected list.
func callSig(n *Normer, p *Prog, call *ssa.Call) string {
	var args []string
	for _, a := range call.Common().Args {
		args = append(args, n.Norm(a).String())
	}
	name := "?"
	if cal := calleeOf(call); cal != nil {
		name = cal.Name()
	}
	return name + "(" + strings.Join(args, ", ") + ")"
}

// P10 / dimension search of PDF417.
func rulePDF417Arith(c *Ctx) {
	const R = "P10-PDF-RS"
	c.Doc(R, "pdf417 Compute (ISO 15438 check-word recurrence): factors = correctionFactors[level], k = 2^(level+1) registers; for EVERY data codeword: t = (value + e[0]) mod 929, then for i = k-1 .. 0: e[k-1-i] = (e[k-i] (0 when i = 0) + 929 - (t*factors[i]) mod 929) mod 929; finally every non-zero register is replaced by 929 - it")
	c.Floor(R, 9)
	if fn := c.theFunc(R, "pdf417.(securitylevel).Compute"); fn != nil && len(fn.Params) == 2 {
		n := NewNormer(c.P)
		n.NoInline["pdf417.(securitylevel).ErrorCorrectionWordCount"] = true
		n.AtomAlias["call:pdf417.(securitylevel).ErrorCorrectionWordCount(level)"] = "k"
		n.BindParams(fn, "level", "data")
		var ec *ssa.MakeSlice
		eachInstr(fn, func(b *ssa.BasicBlock, ins ssa.Instruction) {
			if m, ok := ins.(*ssa.MakeSlice); ok {
				ec = m
			}
		})
		if ec == nil {
			c.Undecided(R, "pdf417.Compute/registers", fn.Pos(), "register slice not found")
			return
		}
		c.expectPoly(R, "pdf417.Compute/register-count", ec.Pos(), n, ec.Len, "k")
		n.Bind[ec] = "e"
		n.AtomAlias["global:pdf417.correctionFactors[level]"] = "f"
		// the store of the recurrence
		var st *ssa.Store
		var finalSt *ssa.Store
		var single []*ssa.Store // stores in a loop that is not nested
		eachInstr(fn, func(b *ssa.BasicBlock, ins ssa.Instruction) {
			s, ok := ins.(*ssa.Store)
			if !ok {
				return
			}
			if ia, ok := s.Addr.(*ssa.IndexAddr); ok && ia.X == ssa.Value(ec) {
				if h := enclosingLoopHeader(b); h != nil {
					if h.Idom() != nil && enclosingLoopHeader(h.Idom()) != nil {
						st = s // nested in the data loop: the recurrence
					} else {
						single = append(single, s)
					}
				}
			}
		})
		// the last register may be written after the register loop (its formula has no neighbour term):
		// a store in the data loop itself
		var peeled *ssa.Store
		for _, s := range single {
			if st != nil && enclosingLoopHeader(s.Block()) == enclosingLoopHeader(enclosingLoopHeader(st.Block()).Idom()) {
				peeled = s
			} else {
				finalSt = s
			}
		}
		if st == nil || finalSt == nil {
			c.Undecided(R, "pdf417.Compute/stores", fn.Pos(), "recurrence store / final complement store not found")
			return
		}
		inner := enclosingLoopHeader(st.Block())
		outer := enclosingLoopHeader(inner.Idom())
		if outer == nil {
			c.Undecided(R, "pdf417.Compute/loops", st.Pos(), "data loop not found")
			return
		}
		vidx, _, vinit, ok := loopIndex(outer)
		if !ok || vinit != 0 {
			c.Undecided(R, "pdf417.Compute/data-loop", st.Pos(), "data loop is not a pass over all data codewords")
			return
		}
		n.Bind[vidx] = "v"
		c.expectCond(R, "pdf417.Compute/every-codeword", outer.Instrs[0].Pos(), n.LoopCond(outer), "v < len(data)")
		// the register loop runs for every codeword (no early continue)
		c.expectCond(R, "pdf417.Compute/register-loop-always", inner.Instrs[0].Pos(), n.ReachCond(fn, outer.Succs[0], inner), "true")
		// registers are rewritten front to back: q = index written, whatever the loop variable is
		ia := st.Addr.(*ssa.IndexAddr)
		first, step, while, okR := reindexLoop(n, inner, ia.Index)
		if !okR {
			c.Undecided(R, "pdf417.Compute/register-loop", st.Pos(), "register index is not an affine function of the loop variable")
			return
		}
		c.Check(R, "pdf417.Compute/order", st.Pos(), pEqual(first, pConst(0)) && pEqual(step, pConst(1)), "registers written in the order 0, 1, 2, ...", fmt.Sprintf("first %s, step %s", first, step))
		if peeled == nil {
			c.expectCondC(R, "pdf417.Compute/all-registers", st.Pos(), while, MustRefCond("q <= k - 1"))
			checkCases(c, R, "pdf417.Compute/recurrence", st.Pos(), n.valueCases(fn, inner.Succs[0], st.Val, 0), []edgeSpec{
				{"(0 + 929 - (((data[v] + e[0])%929)*f[k - 1 - q])%929)%929", "q >= k - 1"},
				{"(e[q + 1] + 929 - (((data[v] + e[0])%929)*f[k - 1 - q])%929)%929", "q < k - 1"}})
			n.env = n.env[:len(n.env)-1]
		} else {
			// registers 0 .. k-2 in the loop, register k-1 after it
			c.expectCondC(R, "pdf417.Compute/all-registers", st.Pos(), while, MustRefCond("q < k - 1"))
			checkCasesUnder(c, R, "pdf417.Compute/recurrence", st.Pos(), n.valueCases(fn, inner.Succs[0], st.Val, 0), []edgeSpec{
				{"(e[q + 1] + 929 - (((data[v] + e[0])%929)*f[k - 1 - q])%929)%929", "q < k - 1"}}, MustRefCond("q < k - 1"))
			n.env = n.env[:len(n.env)-1]
			c.expectPoly(R, "pdf417.Compute/last-register", peeled.Pos(), n, peeled.Addr.(*ssa.IndexAddr).Index, "k - 1")
			c.expectPoly(R, "pdf417.Compute/last-register-value", peeled.Pos(), n, peeled.Val, "(929 - (((data[v] + e[0])%929)*f[0])%929)%929")
			after := inner.Dominates(peeled.Block()) && !inLoopBody(inner, peeled.Block())
			reach := cFalse
			if ex := loopExitBlock(inner); ex != nil && after {
				reach = n.ReachCond(fn, ex, peeled.Block())
			}
			eq, _ := CondEquivalent(reach, cTrue)
			c.Check(R, "pdf417.Compute/last-register-always", peeled.Pos(), after && eq, "written after the register loop for every codeword", reach.String())
		}
		// final complement
		fh := enclosingLoopHeader(finalSt.Block())
		if fidx, _, finit, ok := loopIndex(fh); ok && finit == 0 {
			n.Bind[fidx] = "j"
			c.expectPoly(R, "pdf417.Compute/complement-index", finalSt.Pos(), n, finalSt.Addr.(*ssa.IndexAddr).Index, "j")
			c.expectPoly(R, "pdf417.Compute/complement-value", finalSt.Pos(), n, finalSt.Val, "929 - e[j]")
			c.expectCond(R, "pdf417.Compute/complement-iff", finalSt.Pos(), n.ReachCond(fn, fh.Succs[0], finalSt.Block()), "e[j] > 0")
		}
		for _, ret := range returnsOf(fn) {
			c.Check(R, "pdf417.Compute/result", ret.Pos(), ret.Results[0] == ssa.Value(ec), "the registers", n.Norm(ret.Results[0]).String())
		}
	}

	const RD = "C13-PDF-DIMENSIONS"
	c.Doc(RD, "pdf417.calcDimensions tries every column count from minCols to maxCols inclusive, stops at the first column count whose row count drops below minRows and skips those above maxRows; the row count for c columns is calculateNumberOfRows(dataWords, eccWords, c)")
	c.Floor(RD, 5)
	if fn := c.theFunc(RD, "pdf417.calcDimensions"); fn != nil {
		// analysed in its calling context (M data words, K check words), however the two counts are handed over
		n, enc := pdfRoot(c)
		var sites []DeepSite
		if enc != nil {
			sites = c.P.deepCallsTo(enc, fn)
		}
		switch {
		case len(sites) == 1:
			n.Ctx = append(append([]ssa.CallInstruction{}, sites[0].Path...), sites[0].Ins.(*ssa.Call))
		case len(fn.Params) == 2:
			n = NewNormer(c.P)
			n.BindParams(fn, "M", "K")
		default:
			c.Undecided(RD, "pdf417.calcDimensions/context", fn.Pos(), "not called once from EncodeWithColor and not of the form (dataWords, eccWords)")
			return
		}
		n.NoInline["pdf417.calculateNumberOfRows"] = true
		var hdr *ssa.BasicBlock
		var cphi *ssa.Phi
		var cinit int64
		for _, b := range fn.Blocks {
			if p, init, ok := loopCounter(b); ok && hdr == nil {
				hdr, cphi, cinit = b, p, init
			}
		}
		if hdr == nil {
			c.Undecided(RD, "pdf417.calcDimensions/loop", fn.Pos(), "column loop not found")
		} else {
			n.Bind[cphi] = "c"
			c.Check(RD, "pdf417.calcDimensions/first-column", cphi.Pos(), cinit == 2, "2 (minCols)", fmt.Sprint(cinit))
			c.expectCond(RD, "pdf417.calcDimensions/while", cphi.Pos(), n.LoopCond(hdr), "c <= 30")
			// the row count of the candidate: a call in the loop body whose value is the number of rows
			// for c columns (calculateNumberOfRows directly, or through a local closure/helper)
			var rcall *ssa.Call
			crows := c.P.Func("pdf417.calculateNumberOfRows")
			eachInstr(fn, func(b *ssa.BasicBlock, ins ssa.Instruction) {
				call, ok := ins.(*ssa.Call)
				if !ok || rcall != nil || !(hdr.Dominates(b) && inLoopBody(hdr, b)) {
					return
				}
				cal := calleeOf(call)
				if cal == nil {
					return
				}
				if cal == crows {
					rcall = call
					return
				}
				// a wrapper: single-block function/closure returning calculateNumberOfRows(...)
				if cal.Blocks != nil && len(cal.Blocks) == 1 && len(callsTo(cal, crows)) == 1 {
					rcall = call
				}
			})
			if rcall == nil {
				c.Check(RD, "pdf417.calcDimensions/rows", fn.Pos(), false, "rows = calculateNumberOfRows(dataWords, eccWords, c)", "no call in the loop")
			} else {
				// its value, followed through calculateNumberOfRows in this calling context: ceil((M+1+K)/c)
				inner, innerFn, innerCtx := rcall, fn, n.Ctx
				if cal := calleeOf(rcall); cal != crows {
					inner, innerFn = callsTo(cal, crows)[0], cal
					innerCtx = append(append([]ssa.CallInstruction{}, n.Ctx...), rcall)
				}
				savedCtx := n.Ctx
				n.Ctx = innerCtx
				delete(n.NoInline, "pdf417.calculateNumberOfRows")
				cases := n.valueCases(innerFn, nil, inner, 0)
				n.Ctx = savedCtx
				assume := MustRefCond("(M+1+K) % c >= 0")
				wantRows := map[string]string{MustRef("(M+1+K)/c + 1").String(): "(M+1+K) % c > 0", MustRef("(M+1+K)/c").String(): "(M+1+K) % c <= 0"}
				seenRows := map[string]bool{}
				for _, cs := range cases {
					v := cs.val.String()
					w, ok := wantRows[v]
					if !ok {
						c.Check(RD, "pdf417.calcDimensions/rows/"+v, rcall.Pos(), false, "rows for c columns = (M+1+K)/c rounded up", v+" when "+cs.cond.String())
						continue
					}
					seenRows[v] = true
					c.expectCondC(RD, "pdf417.calcDimensions/rows/"+v, rcall.Pos(), cAnd(assume, cs.cond), cAnd(assume, MustRefCond(w)))
				}
				c.Check(RD, "pdf417.calcDimensions/rows", rcall.Pos(), len(seenRows) == 2, "rows = calculateNumberOfRows(dataWords, eccWords, c)", fmt.Sprint(len(seenRows))+" of the two rounding cases")
				n.Bind[rcall] = "r"
				// break: leaves the loop; continue: goes to the latch without updating the choice
				exit := hdr.Succs[1]
				brk := cFalse
				for _, p := range exit.Preds {
					if p != hdr {
						brk = cOr(brk, cAnd(n.ReachCond(fn, hdr.Succs[0], p), n.EdgeCond(p, exit)))
					}
				}
				c.expectCond(RD, "pdf417.calcDimensions/stop-iff", rcall.Pos(), brk, "r < 2")
				// the candidate is taken (cols = c, rows = r) only when 2 <= r <= 30
				for _, b := range fn.Blocks {
					for _, ins := range b.Instrs {
						p, ok := ins.(*ssa.Phi)
						if !ok || b == hdr || !hdr.Dominates(b) {
							continue
						}
						for ei, e := range p.Edges {
							if e == ssa.Value(rcall) {
								pred := b.Preds[ei]
								cond := cAnd(n.ReachCond(fn, hdr.Succs[0], pred), n.EdgeCond(pred, b))
								imp, _, w := CondRelation(cond, MustRefCond("r >= 2 && r <= 30"))
								c.Check(RD, "pdf417.calcDimensions/take-within-limits", p.Pos(), imp, "a candidate is taken only when 2 <= rows <= 30", cond.String()+" "+w)
								// ... and both limits themselves can be taken (the condition is not refutable at rows = 2 and rows = 30)
								for _, lim := range []string{"r == 2", "r == 30"} {
									unsat, _, _ := CondRelation(cAnd(cond, MustRefCond(lim)), cFalse)
									c.Check(RD, "pdf417.calcDimensions/limit-reachable/"+strings.ReplaceAll(lim, " == ", "="), p.Pos(), !unsat, "a candidate with "+lim+" can be taken (limits inclusive)", cond.String())
								}
							}
						}
					}
				}
			}
		}
	}

	const RN = "P9-PDF-NUMERIC"
	c.Doc(RN, "pdf417.encodeNumeric: digits are converted in chunks of 44 with a leading '1', base 900, and the codeword list of each chunk starts empty (fresh per chunk)")
	c.Floor(RN, 3)
	if fn := c.theFunc(RN, "pdf417.encodeNumeric"); fn != nil {
		n := NewNormer(c.P)
		n.BindParams(fn, "digits")
		// outer chunk loop
		var outer *ssa.BasicBlock
		for _, b := range fn.Blocks {
			if _, _, init, ok := loopIndex(b); ok && init == 0 && outer == nil {
				outer = b
			}
		}
		stepping := false
		if outer == nil {
			// the loop may step through the digits by the chunk length: position = 44 * chunk number
			for _, b := range fn.Blocks {
				for _, lv := range loopShapes(n, b) {
					if k, ok := lv.step.IsConst(); ok && k == 44 && pEqual(lv.init, pConst(0)) && outer == nil {
						outer, stepping = b, true
						n.env = append(n.env, map[ssa.Value]Poly{lv.idx: pMul(pConst(44), pAtom("ch"))})
					}
				}
			}
		}
		if outer == nil {
			c.Undecided(RN, "pdf417.encodeNumeric/chunks", fn.Pos(), "chunk loop not found")
		} else {
			if !stepping {
				idx, _, _, _ := loopIndex(outer)
				n.Bind[idx] = "ch"
			}
			// inner loop accumulating the chunk's codewords: a slice-typed header phi inside the chunk loop
			found := false
			for _, b := range fn.Blocks {
				if b == outer || !inLoopBody(outer, b) {
					continue
				}
				for _, ins := range b.Instrs {
					p, ok := ins.(*ssa.Phi)
					if !ok {
						break
					}
					if _, isSlice := p.Type().Underlying().(*types.Slice); !isSlice {
						continue
					}
					isHeader := false
					for _, pr := range b.Preds {
						if b.Dominates(pr) {
							isHeader = true
						}
					}
					if !isHeader {
						continue
					}
					found = true
					for ei, e := range p.Edges {
						if b.Dominates(b.Preds[ei]) {
							continue
						}
						fresh := false
						switch x := e.(type) {
						case *ssa.Slice:
							if a, ok := x.X.(*ssa.Alloc); ok && inLoopBody(outer, a.Block()) {
								fresh = true
							}
						case *ssa.MakeSlice:
							fresh = inLoopBody(outer, x.Block())
						case *ssa.Const:
							fresh = x.Value == nil
						}
						c.Check(RN, "pdf417.encodeNumeric/fresh-per-chunk", p.Pos(), fresh, "the chunk's codeword list starts empty for every chunk", n.Norm(e).String())
					}
					// every codeword that enters a chunk's list is a digit of the arbitrary-precision value
					// (a chunk of 44 digits does not fit any machine integer): the elements added on the
					// loop's back edges come from math/big, not from fixed-width arithmetic
					for ei, e := range p.Edges {
						if !b.Dominates(b.Preds[ei]) {
							continue
						}
						okBig, what := false, n.Norm(e).String()
						if ap, isCall := e.(*ssa.Call); isCall {
							if bi, isB := ap.Common().Value.(*ssa.Builtin); isB && bi.Name() == "append" {
								okBig, what = true, "big.Int digits"
								for _, arg := range ap.Common().Args {
									for _, el := range variadicElems(arg) {
										src := el
										for {
											cvt, isC := src.(*ssa.Convert)
											if !isC {
												break
											}
											src = cvt.X
										}
										call, isCall := src.(*ssa.Call)
										if !isCall || !strings.HasPrefix(calleeFull(call), "(*math/big.Int).") {
											okBig, what = false, n.Norm(el).String()
										}
									}
								}
							}
						}
						c.Check(RN, "pdf417.encodeNumeric/arbitrary-precision", p.Pos(), okBig, "each codeword added to a chunk's list is read from a math/big value", what)
					}
				}
			}
			c.Check(RN, "pdf417.encodeNumeric/accumulator", fn.Pos(), found, "per-chunk codeword accumulation", fmt.Sprint(found))
			// chunk bounds: start = ch*44, end = min(start+44, len)
			eachInstr(fn, func(b *ssa.BasicBlock, ins ssa.Instruction) {
				if sl, ok := ins.(*ssa.Slice); ok && sl.X == ssa.Value(fn.Params[0]) {
					c.expectPoly(RN, "pdf417.encodeNumeric/chunk-start", sl.Pos(), n, sl.Low, "ch*44")
					cs := n.valueCases(fn, n.BodyStart(outer), sl.High, 0)
					checkCases(c, RN, "pdf417.encodeNumeric/chunk-end", sl.Pos(), cs, []edgeSpec{{"ch*44 + 44", "ch*44 + 44 <= len(digits)"}, {"len(digits)", "ch*44 + 44 > len(digits)"}})
				}
			})
		}
	}
}

// M6: GFPoly arithmetic structure.
func ruleGFPolyArith(c *Ctx) {
	const R = "M6-GFPOLY-ADD"
	c.Doc(R, "GFPoly.AddOrSubstract: zero operands return the other operand; the longer coefficient list is `large`, the shorter `small` (complementary choice by length); the result has len(large) entries: the leading len(large)-len(small) copied from LARGE, the rest large[i] xor small[i-diff]; MultByMonominal/Multiply shapes")
	c.Floor(R, 8)
	if fn := c.theFunc(R, "utils.(*GFPoly).AddOrSubstract"); fn != nil && len(fn.Params) == 2 {
		n := NewNormer(c.P)
		n.BindParams(fn, "gp", "other")
		var mk *ssa.MakeSlice
		var cp *ssa.Call
		eachInstr(fn, func(b *ssa.BasicBlock, ins ssa.Instruction) {
			if m, ok := ins.(*ssa.MakeSlice); ok {
				mk = m
			}
			if call, ok := ins.(*ssa.Call); ok {
				if bi, ok := call.Common().Value.(*ssa.Builtin); ok && bi.Name() == "copy" {
					cp = call
				}
			}
		})
		if mk != nil && cp == nil {
			// the result is built by appending: first the leading part of the longer list, then one
			// combined coefficient per position - the position is the length reached so far
			gfAppendForm(c, R, n, fn)
		} else if mk == nil || cp == nil {
			c.Undecided(R, "utils.(*GFPoly).AddOrSubstract/shape", fn.Pos(), "result slice / prefix copy not found")
		} else {
			// large / small: the two complementary phis
			var large, small ssa.Value
			inPlace := false
			if sl, ok := cp.Common().Args[1].(*ssa.Slice); ok {
				large = sl.X
				inPlace = sl.High == nil && sl.Low == nil
			} else if _, isSl := cp.Common().Args[1].Type().Underlying().(*types.Slice); isSl && cp.Common().Args[0] == ssa.Value(mk) {
				// the longer list copied as a whole; the shorter one is then folded into the copy's tail
				// (result[q] still holds large[q] when position q is combined - every q is written once)
				large = cp.Common().Args[1]
				inPlace = true
			}
			var xorCall *ssa.Call
			for _, call := range callsTo(fn, c.P.Func("utils.(*GaloisField).AddOrSub")) {
				xorCall = call
			}
			if large == nil || xorCall == nil {
				c.Undecided(R, "utils.(*GFPoly).AddOrSubstract/operands", cp.Pos(), "copy source / element combination not found")
			} else {
				baseOf := func(v ssa.Value) ssa.Value {
					if ld, ok := v.(*ssa.UnOp); ok {
						if ia, ok := ld.X.(*ssa.IndexAddr); ok {
							return ia.X
						}
					}
					return nil
				}
				a0, a1 := baseOf(xorCall.Common().Args[1]), baseOf(xorCall.Common().Args[2])
				if inPlace {
					if a0 == ssa.Value(mk) {
						a0 = large
					}
					if a1 == ssa.Value(mk) {
						a1 = large
					}
				}
				for _, v := range []ssa.Value{a0, a1} {
					if v != nil && v != large {
						small = v
					}
				}
				c.Check(R, "utils.(*GFPoly).AddOrSubstract/same-large", cp.Pos(), small != nil && (a0 == large || a1 == large), "the prefix is copied from the same (longer) list that supplies large[i]", fmt.Sprintf("copy source %s, combined %s / %s", n.Norm(large), nz(n, a0), nz(n, a1)))
				if small != nil {
					lc := n.valueCases(fn, nil, large, 0)
					sc := n.valueCases(fn, nil, small, 0)
					checkCases(c, R, "utils.(*GFPoly).AddOrSubstract/large", cp.Pos(), lc, []edgeSpec{{"other.Coefficients", "len(gp.Coefficients) <= len(other.Coefficients)"}, {"gp.Coefficients", "len(gp.Coefficients) > len(other.Coefficients)"}})
					checkCases(c, R, "utils.(*GFPoly).AddOrSubstract/small", cp.Pos(), sc, []edgeSpec{{"gp.Coefficients", "len(gp.Coefficients) <= len(other.Coefficients)"}, {"other.Coefficients", "len(gp.Coefficients) > len(other.Coefficients)"}})
					n.Bind[large], n.Bind[small] = "L", "S"
					c.expectPoly(R, "utils.(*GFPoly).AddOrSubstract/result-len", mk.Pos(), n, mk.Len, "len(L)")
					if inPlace {
						n.Bind[mk] = "L" // position q of the copy is large[q] until it is combined
						defer delete(n.Bind, mk)
					}
					c.Check(R, "utils.(*GFPoly).AddOrSubstract/copy-dst", cp.Pos(), cp.Common().Args[0] == ssa.Value(mk), "copy into the result", n.Norm(cp.Common().Args[0]).String())
					if sl, ok := cp.Common().Args[1].(*ssa.Slice); ok && sl.High != nil {
						c.expectPoly(R, "utils.(*GFPoly).AddOrSubstract/prefix-len", cp.Pos(), n, sl.High, "len(L) - len(S)")
					}
					// the combining loop, expressed through the result index q that is written
					var resSt *ssa.Store
					eachInstr(fn, func(b2 *ssa.BasicBlock, ins ssa.Instruction) {
						if s2, ok := ins.(*ssa.Store); ok {
							if ia, ok := s2.Addr.(*ssa.IndexAddr); ok && ia.X == ssa.Value(mk) {
								resSt = s2
							}
						}
					})
					if h := enclosingLoopHeader(xorCall.Block()); h != nil && resSt != nil {
						first, step, while, okR := reindexLoop(n, h, resSt.Addr.(*ssa.IndexAddr).Index)
						if !okR {
							c.Undecided(R, "utils.(*GFPoly).AddOrSubstract/loop", xorCall.Pos(), "result index is not an affine function of the loop variable")
						} else {
							c.Check(R, "utils.(*GFPoly).AddOrSubstract/loop-start", xorCall.Pos(), pEqual(first, MustRef("len(L) - len(S)")) && pEqual(step, pConst(1)), "q from len(L)-len(S) step 1", fmt.Sprintf("first %s, step %s", first, step))
							c.expectCondC(R, "utils.(*GFPoly).AddOrSubstract/loop-while", xorCall.Pos(), while, MustRefCond("q < len(L)"))
							args := []string{n.Norm(xorCall.Common().Args[1]).String(), n.Norm(xorCall.Common().Args[2]).String()}
							sort.Strings(args)
							want := []string{"L[q]", "S[" + MustRef("q - (len(L) - len(S))").String() + "]"}
							c.Check(R, "utils.(*GFPoly).AddOrSubstract/combine", xorCall.Pos(), fmt.Sprint(args) == fmt.Sprint(want), fmt.Sprint(want), fmt.Sprint(args))
							c.Check(R, "utils.(*GFPoly).AddOrSubstract/combine-stored", resSt.Pos(), strip(resSt.Val) == ssa.Value(xorCall) || strings.Contains(n.Norm(resSt.Val).String(), "AddOrSub"), "the combined value is stored at q", n.Norm(resSt.Val).String())
							n.env = n.env[:len(n.env)-1]
						}
					}
				}
			}
		}
		// zero shortcuts
		for _, ret := range returnsOf(fn) {
			v := n.Norm(ret.Results[0]).String()
			rc := n.ReachCond(fn, nil, ret.Block())
			switch v {
			case "other":
				c.expectCond(R, "utils.(*GFPoly).AddOrSubstract/zero-left", ret.Pos(), rc, "gp.Coefficients[0] == 0")
			case "gp":
				c.expectCond(R, "utils.(*GFPoly).AddOrSubstract/zero-right", ret.Pos(), rc, "gp.Coefficients[0] != 0 && other.Coefficients[0] == 0")
			default:
				// every other return: the computed sum, or a shortcut that hands back one operand's
				// coefficients - then the other operand is the zero polynomial
				key := "utils.(*GFPoly).AddOrSubstract/return@" + c.P.Pos(ret.Pos())
				call, isCall := ret.Results[0].(*ssa.Call)
				if !isCall || calleeOf(call) == nil || c.P.FuncName(calleeOf(call)) != "utils.NewGFPoly" {
					c.Check(R, key, ret.Pos(), false, "an operand (the other being zero) or NewGFPoly(field, sum)", v)
					continue
				}
				coef := call.Common().Args[1]
				if mk != nil && (coef == ssa.Value(mk) || sliceRoot(coef) == ssa.Value(mk)) {
					continue // the sum (its construction is checked above)
				}
				okAll, why := true, ""
				for _, cs := range n.valueCases(fn, nil, coef, 0) {
					under := cAnd(rc, cs.cond)
					if eq, _ := CondEquivalent(under, cFalse); eq {
						continue
					}
					var need *Cond
					switch cs.val.String() {
					case "other.Coefficients":
						need = MustRefCond("gp.Coefficients[0] == 0")
					case "gp.Coefficients":
						need = MustRefCond("other.Coefficients[0] == 0")
					default:
						if mk == nil {
							continue // append form: the accumulated result (checked by the append-form obligations)
						}
						okAll, why = false, "returns "+cs.val.String()
						continue
					}
					if imp, _, w := CondRelation(under, need); !imp {
						okAll, why = false, fmt.Sprintf("%s returned when %s (%s)", cs.val, under, w)
					}
				}
				c.Check(R, key, ret.Pos(), okAll, "an operand's coefficients only when the other operand is zero", orOK(why))
			}
		}
	}
	if fn := c.theFunc(R, "utils.(*GFPoly).MultByMonominal"); fn != nil && len(fn.Params) == 3 {
		n := NewNormer(c.P)
		n.BindParams(fn, "gp", "degree", "coeff")
		eachInstr(fn, func(b *ssa.BasicBlock, ins ssa.Instruction) {
			if m, ok := ins.(*ssa.MakeSlice); ok {
				c.expectPoly(R, "utils.(*GFPoly).MultByMonominal/len", m.Pos(), n, m.Len, "len(gp.Coefficients) + degree")
			}
			if call, ok := ins.(*ssa.Call); ok && calleeOf(call) != nil && calleeOf(call).Name() == "Multiply" {
				if h := enclosingLoopHeader(b); h != nil {
					if idx, _, init, ok := loopIndex(h); ok && init == 0 {
						n.Bind[idx] = "i"
					}
				}
				got := callSig(n, c.P, call)
				c.Check(R, "utils.(*GFPoly).MultByMonominal/element", call.Pos(), got == "Multiply(gp.gf, gp.Coefficients[i], coeff)", "Multiply(gp.gf, gp.Coefficients[i], coeff)", got)
			}
		})
	}
	if fn := c.theFunc(R, "utils.(*GFPoly).Multiply"); fn != nil && len(fn.Params) == 2 {
		n := NewNormer(c.P)
		n.BindParams(fn, "gp", "other")
		var idxs []ssa.Value
		for _, b := range fn.Blocks {
			if idx, _, init, ok := loopIndex(b); ok && init == 0 {
				idxs = append(idxs, idx)
			}
		}
		var hdrs []*ssa.BasicBlock
		for _, b := range fn.Blocks {
			if _, _, init, ok := loopIndex(b); ok && init == 0 {
				hdrs = append(hdrs, b)
			}
		}
		if len(idxs) == 2 {
			// outer first in block order
			n.Bind[idxs[0]], n.Bind[idxs[1]] = "i", "j"
		}
		// what is returned: the zero polynomial iff a factor is zero, otherwise the polynomial built from
		// the product coefficients - or, for a constant factor, the other factor scaled by that constant
		var mk *ssa.MakeSlice
		eachInstr(fn, func(b *ssa.BasicBlock, ins ssa.Instruction) {
			if m, ok := ins.(*ssa.MakeSlice); ok {
				mk = m
			}
		})
		zeroC := cFalse
		nr := NewNormer(c.P)
		nr.BindParams(fn, "gp", "other")
		for _, nm := range []string{"utils.(*GFPoly).Zero", "utils.(*GFPoly).Degree", "utils.(*GFPoly).GetCoefficient", "utils.(*GaloisField).Zero"} {
			nr.NoInline[nm] = true
		}
		for k, ret := range returnsOf(fn) {
			v := nr.Norm(ret.Results[0]).String()
			rc := nr.ReachCond(fn, nil, ret.Block())
			key := fmt.Sprintf("utils.(*GFPoly).Multiply/return#%d", k+1)
			switch {
			case v == "call:utils.(*GaloisField).Zero(gp.gf)" || v == "call:utils.(*GaloisField).Zero(other.gf)":
				zeroC = cOr(zeroC, rc)
			case mk != nil && strings.HasPrefix(v, "call:utils.NewGFPoly("):
				call, _ := ret.Results[0].(*ssa.Call)
				c.Check(R, key, ret.Pos(), call != nil && len(call.Common().Args) == 2 && call.Common().Args[1] == ssa.Value(mk), "NewGFPoly(field, product)", v)
			case v == "call:utils.(*GFPoly).MultByMonominal(other,0,call:utils.(*GFPoly).GetCoefficient(gp,0))":
				imp, _, _ := CondRelation(rc, mustRefCondAtomsEq("call:utils.(*GFPoly).Degree(gp)", 0))
				c.Check(R, key, ret.Pos(), imp, "other scaled by gp's constant term only when gp is a constant", rc.String())
			case v == "call:utils.(*GFPoly).MultByMonominal(gp,0,call:utils.(*GFPoly).GetCoefficient(other,0))":
				imp, _, _ := CondRelation(rc, mustRefCondAtomsEq("call:utils.(*GFPoly).Degree(other)", 0))
				c.Check(R, key, ret.Pos(), imp, "gp scaled by other's constant term only when other is a constant", rc.String())
			default:
				c.Check(R, key, ret.Pos(), false, "zero polynomial, NewGFPoly(field, product), or a factor scaled by the other factor's constant term", v)
			}
		}
		zg, zo := &Cond{Kind: CBool, Name: "call:utils.(*GFPoly).Zero(gp)"}, &Cond{Kind: CBool, Name: "call:utils.(*GFPoly).Zero(other)"}
		c.expectCondC(R, "utils.(*GFPoly).Multiply/zero-iff", fn.Pos(), zeroC, cOr(zg, zo))
		eachInstr(fn, func(b *ssa.BasicBlock, ins ssa.Instruction) {
			if m, ok := ins.(*ssa.MakeSlice); ok {
				c.expectPoly(R, "utils.(*GFPoly).Multiply/len", m.Pos(), n, m.Len, "len(gp.Coefficients) + len(other.Coefficients) - 1")
			}
			if st, ok := ins.(*ssa.Store); ok && len(hdrs) == 2 {
				if ia, ok := st.Addr.(*ssa.IndexAddr); ok {
					if _, isMk := ia.X.(*ssa.MakeSlice); isMk {
						// every pair (i, j) is visited: the accumulation is reached for all i < len(a), j < len(b)
						// and the loops are left only through their headers
						c.expectCond(R, "utils.(*GFPoly).Multiply/all-pairs", st.Pos(), n.ReachCond(fn, hdrs[0], b), "i < len(gp.Coefficients) && j < len(other.Coefficients)")
						for k, h := range hdrs {
							c.Check(R, fmt.Sprintf("utils.(*GFPoly).Multiply/no-early-exit#%d", k+1), h.Instrs[0].Pos(), loopExitsOnlyAtHeader(h), "the loop is left only when its counter reaches the length", "a break/return leaves the loop body")
						}
					}
				}
			}
			if st, ok := ins.(*ssa.Store); ok {
				if ia, ok := st.Addr.(*ssa.IndexAddr); ok {
					if _, isMk := ia.X.(*ssa.MakeSlice); isMk {
						c.expectPoly(R, "utils.(*GFPoly).Multiply/index", st.Pos(), n, ia.Index, "i + j")
						got := n.Norm(st.Val).String()
						want := "call:utils.(*GaloisField).Multiply(gp.gf,gp.Coefficients[i],other.Coefficients[j])"
						c.Check(R, "utils.(*GFPoly).Multiply/accumulate", st.Pos(), strings.HasPrefix(got, "Xor(") && strings.Contains(got, want), "product[i+j] xor a[i]*b[j]", got)
					}
				}
			}
		})
	}
}

func nz(n *Normer, v ssa.Value) string {
	if v == nil {
		return "<none>"
	}
	return n.Norm(v).String()
}

// A7: Aztec high-level encoder call structure.
func ruleAztecHighLevel(c *Ctx) {
	const R = "A7-AZTEC-HIGHLEVEL"
	c.Doc(R, "aztec high-level encoder: a pending binary shift is closed AT the current index before a character or pair is emitted in a text mode; pairs: latch-and-append / shift-and-append of the pair code in Punct, period/comma pairs also as two Digit characters (16-code, 1), binary continuation over both bytes (index, index+1); pair codes CR LF=2, '. '=3, ', '=4, ': '=5; endBinaryShift emits a shift token (index - count, count)")
	c.Floor(R, 10)
	mv := map[string]int64{}
	for _, m := range []string{"mode_upper", "mode_digit", "mode_punct"} {
		mv[m], _ = c.P.ConstInt("aztec", m)
	}
	if fn := c.theFunc(R, "aztec.updateStateForPair"); fn != nil && len(fn.Params) == 4 {
		n := NewNormer(c.P)
		n.BindParams(fn, "s", "data", "index", "pair")
		n.NoInline["aztec.(*state).endBinaryShift"] = true
		var nb *ssa.Call
		for _, call := range callsTo(fn, c.P.Func("aztec.(*state).endBinaryShift")) {
			nb = call
		}
		if nb == nil {
			c.Check(R, "aztec.updateStateForPair/close-binary", fn.Pos(), false, "s.endBinaryShift(index)", "no call")
		} else {
			got := callSig(n, c.P, nb)
			c.Check(R, "aztec.updateStateForPair/close-binary", nb.Pos(), got == "endBinaryShift(s, index)", "endBinaryShift(s, index)", got)
			n.Bind[nb] = "nb"
		}
		type exp struct{ sig, cond string }
		want := map[string]string{
			fmt.Sprintf("latchAndAppend(nb, %d, pair)", mv["mode_punct"]):      "true",
			fmt.Sprintf("shiftAndAppend(nb, %d, pair)", mv["mode_punct"]):      fmt.Sprintf("s.mode != %d", mv["mode_punct"]),
			fmt.Sprintf("latchAndAppend(nb, %d, 16 - pair)", mv["mode_digit"]): "pair == 3 || pair == 4",
			"addBinaryShiftChar(s, index)":                                     "s.bShiftByteCount > 0",
		}
		seen := map[string]bool{}
		eachInstr(fn, func(b *ssa.BasicBlock, ins ssa.Instruction) {
			call, ok := ins.(*ssa.Call)
			if !ok || calleeOf(call) == nil || !isRepoFunc(calleeOf(call)) || call == nb {
				return
			}
			sig := callSig(n, c.P, call)
			if cond, ok := want[sig]; ok {
				seen[sig] = true
				c.expectCond(R, "aztec.updateStateForPair/"+sig+"-iff", call.Pos(), n.ReachCond(fn, nil, call.Block()), cond)
				// chained second calls
				for _, r := range *call.Referrers() {
					if c2, ok := r.(*ssa.Call); ok && calleeOf(c2) != nil && len(c2.Common().Args) > 0 && c2.Common().Args[0] == ssa.Value(call) {
						n.Bind[call] = "first"
						s2 := callSig(n, c.P, c2)
						delete(n.Bind, call)
						switch calleeOf(call).Name() {
						case "latchAndAppend":
							c.Check(R, "aztec.updateStateForPair/digit-space", c2.Pos(), s2 == fmt.Sprintf("latchAndAppend(first, %d, 1)", mv["mode_digit"]), "then a space in Digit mode", s2)
						case "addBinaryShiftChar":
							c.Check(R, "aztec.updateStateForPair/binary-second", c2.Pos(), s2 == "addBinaryShiftChar(first, 1 + index)", "then the second byte at index+1", s2)
						}
					}
				}
			}
		})
		for sig := range want {
			c.Check(R, "aztec.updateStateForPair/has:"+sig, fn.Pos(), seen[sig], "alternative present", fmt.Sprint(seen[sig]))
		}
	}
	if fn := c.theFunc(R, "aztec.updateStateForChar"); fn != nil && len(fn.Params) == 3 {
		n := NewNormer(c.P)
		n.BindParams(fn, "s", "data", "index")
		for _, call := range callsTo(fn, c.P.Func("aztec.(*state).endBinaryShift")) {
			got := callSig(n, c.P, call)
			c.Check(R, "aztec.updateStateForChar/close-binary", call.Pos(), got == "endBinaryShift(s, index)", "endBinaryShift(s, index)", got)
		}
		for _, call := range callsTo(fn, c.P.Func("aztec.(*state).addBinaryShiftChar")) {
			got := callSig(n, c.P, call)
			c.Check(R, "aztec.updateStateForChar/binary", call.Pos(), got == "addBinaryShiftChar(s, index)", "addBinaryShiftChar(s, index)", got)
		}
	}
	if fn := c.theFunc(R, "aztec.(*state).endBinaryShift"); fn != nil && len(fn.Params) == 2 {
		n := NewNormer(c.P)
		n.BindParams(fn, "s", "index")
		for _, call := range callsTo(fn, c.P.Func("aztec.newShiftToken")) {
			got := callSig(n, c.P, call)
			want := "newShiftToken(s.tokens, " + MustRef("index - s.bShiftByteCount").String() + ", s.bShiftByteCount)"
			c.Check(R, "aztec.(*state).endBinaryShift/token", call.Pos(), got == want, want, got)
		}
		for _, ret := range returnsOf(fn) {
			if ret.Results[0] == ssa.Value(fn.Params[0]) {
				c.expectCond(R, "aztec.(*state).endBinaryShift/noop-iff", ret.Pos(), n.ReachCond(fn, nil, ret.Block()), "s.bShiftByteCount == 0")
			}
		}
	}
	if fn := c.theFunc(R, "aztec.(*state).addBinaryShiftChar"); fn != nil && len(fn.Params) == 2 {
		n := NewNormer(c.P)
		n.BindParams(fn, "s", "index")
		for _, call := range callsTo(fn, c.P.Func("aztec.(*state).endBinaryShift")) {
			c.expectPoly(R, "aztec.(*state).addBinaryShiftChar/auto-end-index", call.Pos(), n, call.Common().Args[1], "index + 1")
		}
	}
	if fn := c.theFunc(R, "aztec.highlevelEncode"); fn != nil {
		n := NewNormer(c.P)
		n.BindParams(fn, "data")
		// pairCode phi: alternatives (2,3,4,5,0)
		for _, call := range callsTo(fn, c.P.Func("aztec.updateStateListForPair")) {
			var idx ssa.Value
			for _, b := range fn.Blocks {
				if p, init, ok := loopCounter(b); ok && init == 0 {
					idx = p
				}
			}
			if idx == nil {
				// the index is advanced inside the body as well: take the int header phi
				for _, b := range fn.Blocks {
					for _, ins := range b.Instrs {
						if p, ok := ins.(*ssa.Phi); ok && isIntType(p.Type()) && len(b.Succs) == 2 && idx == nil {
							idx = p
						}
					}
				}
			}
			if idx != nil {
				n.Bind[idx] = "i"
			}
			// the look-ahead byte: data[i+1] when there is one, else 0
			var hdr *ssa.BasicBlock
			if p, ok := idx.(*ssa.Phi); ok {
				hdr = p.Block()
			}
			if hdr == nil {
				c.Undecided(R, "aztec.highlevelEncode/loop", call.Pos(), "position loop not found")
				continue
			}
			body := hdr.Succs[0]
			var nx *ssa.Phi
			eachInstr(fn, func(b *ssa.BasicBlock, ins ssa.Instruction) {
				p, ok := ins.(*ssa.Phi)
				if !ok || b == hdr || !hdr.Dominates(b) || nx != nil {
					return
				}
				if sz, _ := intSize(p.Type()); sz != 8 || len(p.Edges) != 2 {
					return
				}
				for _, e := range p.Edges {
					if k, ok := n.Norm(e).IsConst(); ok && k == 0 {
						nx = p
					}
				}
			})
			if nx == nil {
				c.Undecided(R, "aztec.highlevelEncode/next-char", call.Pos(), "look-ahead byte (0 at the end of the data) not found")
				continue
			}
			checkPhiDef(c, R, "aztec.highlevelEncode/next-char", n, fn, body, nx, []edgeSpec{{"data[i+1]", "i + 1 < len(data)"}, {"0", "i + 1 >= len(data)"}})
			n.Bind[nx] = "nx"
			// the pair code by cases, relative to the start of the loop body
			checkCases(c, R, "aztec.highlevelEncode/pair-code", call.Pos(), n.valueCases(fn, body, call.Common().Args[len(call.Common().Args)-1], 0), []edgeSpec{
				{"2", "data[i] == 13 && nx == 10"},
				{"3", "data[i] == 46 && nx == 32"},
				{"4", "data[i] == 44 && nx == 32"},
				{"5", "data[i] == 58 && nx == 32"},
				{"0", ""}, // otherwise (the four conditions above are exact)
			})
			// a pair is consumed as a pair exactly when its code is positive
			pc := call.Common().Args[len(call.Common().Args)-1] // the pair code is the last argument
			n.Bind[pc] = "pc"
			// (the pair code is 0 or one of 2..5, see the table above: compared on pc >= 0)
			dom := MustRefCond("pc >= 0")
			c.expectCondC(R, "aztec.highlevelEncode/pair-iff", call.Pos(), cAnd(dom, n.ReachCond(fn, pc.(ssa.Instruction).Block(), call.Block())), cAnd(dom, MustRefCond("pc > 0")))
			delete(n.Bind, pc)
		}
	}
	_ = token.ADD
}

// loopExitsOnlyAtHeader: no edge leaves the natural loop of hdr except from hdr itself.
func loopExitsOnlyAtHeader(hdr *ssa.BasicBlock) bool {
	in := map[*ssa.BasicBlock]bool{hdr: true}
	// natural loop: blocks that reach a back edge source without passing hdr
	var work []*ssa.BasicBlock
	for _, p := range hdr.Preds {
		if hdr.Dominates(p) && !in[p] {
			in[p] = true
			work = append(work, p)
		}
	}
	for len(work) > 0 {
		b := work[len(work)-1]
		work = work[:len(work)-1]
		for _, p := range b.Preds {
			if !in[p] {
				in[p] = true
				work = append(work, p)
			}
		}
	}
	exitOK := hdr
	if rot, ok := rotatedLoop(hdr); ok {
		exitOK = rot.latch // a bottom-tested loop is left from its latch
	}
	for b := range in {
		if b == exitOK {
			continue
		}
		for _, s := range b.Succs {
			if !in[s] {
				return false
			}
		}
		if _, isRet := b.Instrs[len(b.Instrs)-1].(*ssa.Return); isRet {
			return false
		}
	}
	return true
}

// gfAppendForm: AddOrSubstract with the result built by append. Obligations mirror the index form:
// prefix = large[:len(large)-len(small)], then for i from that length to len(large): large[i] xor
// small[i-diff], one append per iteration (so that the position equals i).
func gfAppendForm(c *Ctx, R string, n *Normer, fn *ssa.Function) {
	var prefix, elem *appendSite
	for _, s := range appendSites(fn) {
		s := s
		if enclosingLoopHeader(s.call.Block()) != nil && len(s.elems) == 1 {
			elem = &s
		}
	}
	// the spread append of the prefix: append(x, slice...) has no element list
	var prefixCall *ssa.Call
	eachInstr(fn, func(b *ssa.BasicBlock, ins ssa.Instruction) {
		call, ok := ins.(*ssa.Call)
		if !ok {
			return
		}
		if bi, ok := call.Common().Value.(*ssa.Builtin); ok && bi.Name() == "append" && len(call.Common().Args) == 2 && enclosingLoopHeader(b) == nil {
			if _, isSlice := call.Common().Args[1].(*ssa.Slice); isSlice {
				prefixCall = call
			}
		}
	})
	_ = prefix
	if prefixCall == nil || elem == nil {
		c.Undecided(R, "utils.(*GFPoly).AddOrSubstract/shape", fn.Pos(), "result slice / prefix copy not found")
		return
	}
	sl := prefixCall.Common().Args[1].(*ssa.Slice)
	large := sl.X
	xorCalls := callsTo(fn, c.P.Func("utils.(*GaloisField).AddOrSub"))
	if len(xorCalls) != 1 {
		c.Undecided(R, "utils.(*GFPoly).AddOrSubstract/operands", prefixCall.Pos(), "element combination not found")
		return
	}
	xorCall := xorCalls[0]
	baseOf := func(v ssa.Value) ssa.Value {
		if cv, ok := v.(*ssa.Convert); ok {
			v = cv.X
		}
		if ld, ok := v.(*ssa.UnOp); ok {
			if ia, ok := ld.X.(*ssa.IndexAddr); ok {
				return ia.X
			}
		}
		return nil
	}
	a0, a1 := baseOf(xorCall.Common().Args[1]), baseOf(xorCall.Common().Args[2])
	var small ssa.Value
	for _, v := range []ssa.Value{a0, a1} {
		if v != nil && v != large {
			small = v
		}
	}
	c.Check(R, "utils.(*GFPoly).AddOrSubstract/same-large", prefixCall.Pos(), small != nil && (a0 == large || a1 == large), "the prefix is taken from the same (longer) list that supplies large[i]", fmt.Sprintf("prefix source %s, combined %s / %s", n.Norm(large), nz(n, a0), nz(n, a1)))
	if small == nil {
		return
	}
	checkCases(c, R, "utils.(*GFPoly).AddOrSubstract/large", prefixCall.Pos(), n.valueCases(fn, nil, large, 0), []edgeSpec{{"other.Coefficients", "len(gp.Coefficients) <= len(other.Coefficients)"}, {"gp.Coefficients", "len(gp.Coefficients) > len(other.Coefficients)"}})
	checkCases(c, R, "utils.(*GFPoly).AddOrSubstract/small", prefixCall.Pos(), n.valueCases(fn, nil, small, 0), []edgeSpec{{"gp.Coefficients", "len(gp.Coefficients) <= len(other.Coefficients)"}, {"other.Coefficients", "len(gp.Coefficients) > len(other.Coefficients)"}})
	n.Bind[large], n.Bind[small] = "L", "S"
	// prefix: appended to an EMPTY slice, large[:len(L)-len(S)]
	emptyBase := false
	if bm, ok := prefixCall.Common().Args[0].(*ssa.MakeSlice); ok {
		k, isK := n.Norm(bm.Len).IsConst()
		emptyBase = isK && k == 0
	} else if isNilConst(prefixCall.Common().Args[0]) {
		emptyBase = true
	}
	c.Check(R, "utils.(*GFPoly).AddOrSubstract/copy-dst", prefixCall.Pos(), emptyBase, "the prefix starts the (empty) result", n.Norm(prefixCall.Common().Args[0]).String())
	lowOK := sl.Low == nil
	if sl.Low != nil {
		k, isK := n.Norm(sl.Low).IsConst()
		lowOK = isK && k == 0
	}
	c.Check(R, "utils.(*GFPoly).AddOrSubstract/prefix-len", prefixCall.Pos(), lowOK && sl.High != nil && pEqual(n.Norm(sl.High), MustRef("len(L) - len(S)")), "L[:len(L)-len(S)]", n.Norm(sl).String())
	// the loop: i from len(L)-len(S) while i < len(L), one append per iteration, onto the prefix
	h := enclosingLoopHeader(elem.call.Block())
	shapes := loopShapes(n, h)
	// (the counter, not the accumulated slice)
	var cnt []loopVar
	for _, sh := range shapes {
		if isIntType(sh.idx.Type()) {
			cnt = append(cnt, sh)
		}
	}
	shapes = cnt
	var idx ssa.Value
	if len(shapes) > 0 {
		idx = shapes[0].idx
	}
	if len(shapes) == 0 {
		c.Undecided(R, "utils.(*GFPoly).AddOrSubstract/loop", elem.call.Pos(), "combining loop is not a counting loop")
		return
	}
	first := shapes[0].init
	n.Bind[idx] = "q"
	c.Check(R, "utils.(*GFPoly).AddOrSubstract/loop-start", elem.call.Pos(), pEqual(first, MustRef("len(L) - len(S)")) && pEqual(shapes[0].step, pConst(1)), "q from len(L)-len(S) step 1", fmt.Sprintf("first %s, step %s", first, shapes[0].step))
	c.expectCondC(R, "utils.(*GFPoly).AddOrSubstract/loop-while", elem.call.Pos(), n.LoopCond(h), MustRefCond("q < len(L)"))
	args := []string{n.Norm(xorCall.Common().Args[1]).String(), n.Norm(xorCall.Common().Args[2]).String()}
	sort.Strings(args)
	want := []string{"L[q]", "S[" + MustRef("q - (len(L) - len(S))").String() + "]"}
	c.Check(R, "utils.(*GFPoly).AddOrSubstract/combine", xorCall.Pos(), fmt.Sprint(args) == fmt.Sprint(want), fmt.Sprint(want), fmt.Sprint(args))
	c.Check(R, "utils.(*GFPoly).AddOrSubstract/combine-stored", elem.call.Pos(), strip(elem.elems[0]) == ssa.Value(xorCall) || strings.Contains(n.Norm(elem.elems[0]).String(), "AddOrSub"), "the combined value is appended", n.Norm(elem.elems[0]).String())
	// exactly one append per iteration, onto the accumulated result that starts as the prefix
	var acc *ssa.Phi
	for _, ins := range h.Instrs {
		if p, ok := ins.(*ssa.Phi); ok {
			if _, isSl := p.Type().Underlying().(*types.Slice); isSl {
				acc = p
			}
		}
	}
	okAcc := acc != nil && elem.call.Common().Args[0] == ssa.Value(acc)
	if okAcc {
		for ei, e := range acc.Edges {
			if h.Dominates(h.Preds[ei]) {
				okAcc = okAcc && e == ssa.Value(elem.call)
			} else {
				okAcc = okAcc && e == ssa.Value(prefixCall)
			}
		}
	}
	c.Check(R, "utils.(*GFPoly).AddOrSubstract/result-len", elem.call.Pos(), okAcc, "one append per position onto the prefix (position = length so far = q)", fmt.Sprint(okAcc))
}

// mustRefCondAtomsEq: the condition atom == k for an atom that is not a Go expression.
func mustRefCondAtomsEq(atom string, k int64) *Cond {
	return cmpCond(token.EQL, pAtom(atom), pConst(k))
}

// sliceRoot: the slice a value was produced from by appends / reslicing (through loop-carried
// variables when every incoming value has the same root).
func sliceRoot(v ssa.Value) ssa.Value {
	seen := map[ssa.Value]bool{}
	var root func(v ssa.Value, depth int) ssa.Value
	root = func(v ssa.Value, depth int) ssa.Value {
		if depth > 10 || seen[v] {
			return nil
		}
		seen[v] = true
		switch x := v.(type) {
		case *ssa.Slice:
			return root(x.X, depth+1)
		case *ssa.Call:
			if bi, ok := x.Common().Value.(*ssa.Builtin); ok && bi.Name() == "append" {
				return root(x.Common().Args[0], depth+1)
			}
			return v
		case *ssa.Phi:
			var r ssa.Value
			for _, e := range x.Edges {
				er := root(e, depth+1)
				if er == nil {
					continue // back to a value already on the way
				}
				if r != nil && er != r {
					return v
				}
				r = er
			}
			if r == nil {
				return v
			}
			return r
		}
		return v
	}
	if r := root(v, 0); r != nil {
		return r
	}
	return v
}
