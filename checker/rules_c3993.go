package main

import (
	"fmt"
	"go/types"
	"strings"

	"golang.org/x/tools/go/ssa"
)

// S4 = OPT-GATE: in code39/code93 EncodeWithColor every call to the package's getChecksum (the
// check characters that are appended to the symbol data) is control-dependent on the
// includeChecksum parameter being true. Siblings must agree.
func ruleOptGate(c *Ctx) {
	const R = "S4-OPT-GATE"
	c.Doc(R, "every getChecksum call in code39/code93.EncodeWithColor is reached only when includeChecksum is true (reach condition of the call's block implies the bool parameter)")
	c.Floor(R, 3)
	for _, pk := range []string{"code39", "code93"} {
		fn := c.P.Func(pk + ".EncodeWithColor")
		gc := checkCharFunc(c, pk)
		if fn == nil || gc == nil {
			c.Anchor(R, pk+".EncodeWithColor/getChecksum", "function not found")
			continue
		}
		c.Fn(pk + ".EncodeWithColor")
		var flag *ssa.Parameter
		nb := 0
		for _, p := range fn.Params {
			if b, ok := p.Type().Underlying().(*types.Basic); ok && b.Kind() == types.Bool {
				nb++
				if flag == nil {
					flag = p // first bool parameter: includeChecksum
				}
			}
		}
		if flag == nil || nb != 2 {
			c.Anchor(R, pk+".EncodeWithColor/includeChecksum", "expected (content string, includeChecksum bool, fullASCIIMode bool, ...)")
			continue
		}
		calls := c.P.deepCallsTo(fn, gc)
		if len(calls) == 0 {
			c.Check(R, pk+".EncodeWithColor/getChecksum", fn.Pos(), false, "check characters are computed by getChecksum when requested", "no call to getChecksum")
		}
		for i, site := range calls {
			call := site.Ins.(*ssa.Call)
			n := NewNormer(c.P)
			n.Root = fn
			n.Bind[flag] = "includeChecksum"
			rc := n.ReachCondDeep(fn, nil, site)
			imp, _, w := CondRelation(rc, &Cond{Kind: CBool, Name: "includeChecksum"})
			found := "reach condition " + rc.String()
			if !imp {
				found += "; reachable with includeChecksum=false: " + w
			}
			c.Check(R, fmt.Sprintf("%s.EncodeWithColor/getChecksum#%d", pk, i+1), call.Pos(), imp, "reached only if includeChecksum", found)
			// and whenever it is requested: from the nearest point that does not depend on the flag,
			// the call is reached exactly when the flag is set
			var top ssa.Instruction = call
			if len(site.Path) > 0 {
				top = site.Path[0]
			}
			dom := top.Block().Idom()
			for dom != nil && strings.Contains(n.ReachCond(fn, nil, dom).String(), "includeChecksum") {
				dom = dom.Idom()
			}
			local := n.ReachCondDeep(fn, dom, site)
			clearOpaque(local) // any further condition, whatever it tests, narrows "whenever"
			eq, w := CondEquivalent(local, &Cond{Kind: CBool, Name: "includeChecksum"})
			c.Check(R, fmt.Sprintf("%s.EncodeWithColor/getChecksum#%d-whenever", pk, i+1), call.Pos(), eq, "check characters are computed whenever includeChecksum is set", local.String()+" "+w)
		}
	}
}
