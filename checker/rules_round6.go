package main

import (
	"fmt"
	"go/types"
	"sort"
	"strings"
)

// L5: the bit list has no state besides its bits.
func ruleBitListState(c *Ctx) {
	const R = "L5-BITLIST-STATE"
	c.Doc(R, "utils.BitList consists of the bit count and the word slice only (one int, one []int32): every view (GetBit, GetBytes, IterateBytes) is computed from these on each call, so no operation can leave a stale derived copy behind; the other mutable library types reachable from several calls are inventoried by U2")
	c.Floor(R, 1)
	pk := c.P.Pkgs["utils"]
	if pk == nil {
		c.Anchor(R, "utils", "package not loaded")
		return
	}
	obj := pk.Types.Scope().Lookup("BitList")
	if obj == nil {
		c.Anchor(R, "utils.BitList", "type not found")
		return
	}
	st, ok := obj.Type().Underlying().(*types.Struct)
	if !ok {
		c.Check(R, "utils.BitList/fields", obj.Pos(), false, "a struct of the count and the words", obj.Type().Underlying().String())
		return
	}
	var shape []string
	for i := 0; i < st.NumFields(); i++ {
		shape = append(shape, types.TypeString(st.Field(i).Type(), nil))
	}
	sort.Strings(shape)
	got := strings.Join(shape, ", ")
	c.Check(R, "utils.BitList/fields", obj.Pos(), got == "[]int32, int", "[]int32, int", fmt.Sprintf("%s (%d fields)", got, st.NumFields()))
}

func init() {
	for _, p := range []string{"C01", "C02", "C03", "C04", "C05", "C06", "C07", "C08", "C15", "C16", "C18"} {
		register(p, ruleBitListState)
	}
	// rules that already exist, registered for further properties they serve: digit validation decides
	// which QR mode (and so which version) is chosen; shared mutable state breaks the independence of
	// one symbol from the next for every encoder
	register("C13", ruleAtoiPkgs(1, "qr"))
	for _, p := range []string{"C02", "C03", "C04", "C05", "C06", "C07", "C08"} {
		register(p, ruleConcurrency)
	}
}
