package main

import (
	"fmt"
	"go/token"
	"go/types"
	"golang.org/x/tools/go/ssa"
	"sort"
	"strings"
)

// L5: the bit list has no state besides its bits.
func ruleBitListState(c *Ctx) {
	const R = "L5-BITLIST-STATE"
	c.Doc(R, "utils.BitList consists of the bit count and the word slice only (one int, one []int32): every view (GetBit, GetBytes, IterateBytes) is computed from these on each call, so no operation can leave a stale derived copy behind; the other mutable library types reachable from several calls are inventoried by U2")
	c.Floor(R, 1)
	pk := c.P.Pkgs["utils"]
	if pk == nil {
		c.Anchor(R, "utils", "package not loaded")
		return
	}
	obj := pk.Types.Scope().Lookup("BitList")
	if obj == nil {
		c.Anchor(R, "utils.BitList", "type not found")
		return
	}
	st, ok := obj.Type().Underlying().(*types.Struct)
	if !ok {
		c.Check(R, "utils.BitList/fields", obj.Pos(), false, "a struct of the count and the words", obj.Type().Underlying().String())
		return
	}
	var shape []string
	for i := 0; i < st.NumFields(); i++ {
		shape = append(shape, types.TypeString(st.Field(i).Type(), nil))
	}
	sort.Strings(shape)
	got := strings.Join(shape, ", ")
	c.Check(R, "utils.BitList/fields", obj.Pos(), got == "[]int32, int", "[]int32, int", fmt.Sprintf("%s (%d fields)", got, st.NumFields()))
}

func init() {
	for _, p := range []string{"C01", "C02", "C03", "C04", "C05", "C06", "C07", "C08", "C15", "C16", "C18"} {
		register(p, ruleBitListState)
	}
	// rules that already exist, registered for further properties they serve: digit validation decides
	// which QR mode (and so which version) is chosen; shared mutable state breaks the independence of
	// one symbol from the next for every encoder
	register("C13", ruleAtoiPkgs(1, "qr"))
	for _, p := range []string{"C02", "C03", "C04", "C05", "C06", "C07", "C08"} {
		register(p, ruleConcurrency)
	}
}

// Q13: byte mode emits every byte of the content.
func ruleQRByteMode(c *Ctx) {
	const R = "Q13-QR-BYTEMODE"
	c.Doc(R, "qr.encodeUnicode appends the bytes content[0], content[1], ..., content[len-1] - a counting loop over the byte positions (or a range over []byte(content)), not a range over the string, which would step by runes and skip continuation bytes - after the mode indicator and the byte count len(content)")
	c.Floor(R, 3)
	fn := c.theFunc(R, "qr.encodeUnicode")
	if fn == nil {
		return
	}
	addByte := c.P.Func("utils.(*BitList).AddByte")
	var sites []DeepSite
	for _, s := range c.P.deepCallsTo(fn, addByte) {
		if c.P.FuncName(s.Fn) == "qr.addPaddingAndTerminator" {
			continue // the pad codewords are Q9's subject
		}
		// (pad bytes are constants; the content bytes are element reads)
		switch x := s.Ins.(*ssa.Call).Common().Args[1].(type) {
		case *ssa.UnOp, *ssa.Index, *ssa.Lookup, *ssa.Extract:
			// (the pad codewords may also sit in a package-level table)
			var base ssa.Value
			switch y := x.(type) {
			case *ssa.UnOp:
				if ia, ok := y.X.(*ssa.IndexAddr); ok {
					base = ia.X
				}
			case *ssa.Index:
				base = y.X
			case *ssa.Lookup:
				base = y.X
			}
			if ld, ok := base.(*ssa.UnOp); ok {
				base = ld.X
			}
			if _, isG := base.(*ssa.Global); isG {
				continue
			}
			sites = append(sites, s)
		}
	}
	if len(sites) != 1 {
		c.Check(R, "qr.encodeUnicode/bytes", fn.Pos(), false, "one AddByte per content byte", fmt.Sprintf("%d AddByte sites", len(sites)))
		return
	}
	site := sites[0]
	call := site.Ins.(*ssa.Call)
	n := NewNormer(c.P)
	n.BindParams(fn, "content", "ecl")
	n.Ctx = site.Path
	var base, idx ssa.Value
	switch x := call.Common().Args[1].(type) {
	case *ssa.UnOp:
		if ia, ok := x.X.(*ssa.IndexAddr); ok {
			base, idx = ia.X, ia.Index
		}
	case *ssa.Index:
		base, idx = x.X, x.Index
	case *ssa.Lookup:
		base, idx = x.X, x.Index
	}
	if base == nil {
		c.Undecided(R, "qr.encodeUnicode/byte", call.Pos(), "the appended value is not an element of the content")
		return
	}
	src := n.Norm(base).String()
	c.Check(R, "qr.encodeUnicode/source", call.Pos(), src == "content" || src == "Conv:[]byte(content)", "content (as string or as []byte(content))", src)
	hdr := enclosingLoopHeader(call.Block())
	if hdr == nil {
		c.Undecided(R, "qr.encodeUnicode/loop", call.Pos(), "AddByte is not in a loop")
		return
	}
	for _, ins := range hdr.Instrs {
		if nx, ok := ins.(*ssa.Next); ok && nx.IsString {
			c.Check(R, "qr.encodeUnicode/loop", nx.Pos(), false, "a loop over byte positions", "range over the string: positions are rune starts, continuation bytes are skipped")
			return
		}
	}
	first, step, while, ok := reindexLoop(n, hdr, idx)
	if !ok {
		c.Undecided(R, "qr.encodeUnicode/loop", call.Pos(), "byte position is not an affine function of a counting loop variable")
		return
	}
	c.Check(R, "qr.encodeUnicode/loop", call.Pos(), pEqual(first, pConst(0)) && pEqual(step, pConst(1)), "positions 0, 1, 2, ...", fmt.Sprintf("from %s step %s", first, step))
	w1, _ := CondEquivalent(while, MustRefCond("q < len(content)"))
	w2, _ := CondEquivalent(while, cmpCond(token.LSS, pAtom("q"), pAtom("len(Conv:[]byte(content))")))
	c.Check(R, "qr.encodeUnicode/while", call.Pos(), w1 || w2, "while q < len(content)", while.String())
	n.env = n.env[:len(n.env)-1]
}

func init() {
	register("C01", ruleQRByteMode)
	register("C10", ruleQRByteMode)
}
