package main

import (
	"fmt"
	"go/constant"
	"go/token"
	"go/types"
	"sort"
	"strconv"
	"strings"

	"golang.org/x/tools/go/ssa"
)

// N3 = LEN: ean.calcCheckNum computes the check digit of a number WITHOUT its check digit, so it
// may only be applied to strings of length 7 or 12 (typestate on the code string, LenSet domain).
func ruleEANLen(c *Ctx) {
	const R = "N3-LEN"
	c.Doc(R, "ean.calcCheckNum is only applied to strings whose possible lengths (LenSet dataflow over the caller's CFG) are within {7,12}: data digits without check digit")
	c.Floor(R, 2)
	target := c.P.Func("ean.calcCheckNum")
	if target == nil {
		c.Anchor(R, "ean.calcCheckNum", "function not found")
		return
	}
	for _, fn := range append(append([]*ssa.Function{}, c.P.Funcs...), c.P.CanaryFuncs...) {
		calls := callsTo(fn, target)
		if len(calls) == 0 {
			continue
		}
		c.Fn(c.P.FuncName(fn))
		la := NewLenAnalysis(fn)
		for i, call := range calls {
			ls := la.At(call.Common().Args[0], call.Block())
			c.Count["calcCheckNum_call_sites"]++
			c.Check(R, fmt.Sprintf("%s/calcCheckNum#%d", c.P.FuncName(fn), i+1), call.Pos(), lsSubset(ls, 7, 12), "possible lengths within {7,12}", "possible lengths "+ls.String())
		}
	}
}

// V1-EAN: the int handed to the constructor as checksum is the digit value of the LAST character
// of the content string handed to the same constructor call (for every feasible path).
func ruleEANCheckValue(c *Ctx) {
	const R = "V1-EAN-CHECKVALUE"
	c.Doc(R, "at every New1DCodeIntCheckSum* call in ean, on every feasible incoming path (LenSet feasibility: content length 8 or 13), the checksum argument is utils.RuneToInt of the rune that is the last character of the content argument")
	c.Floor(R, 2)
	fn := c.P.Func("ean.EncodeWithColor")
	if fn == nil {
		c.Anchor(R, "ean.EncodeWithColor", "function not found")
		return
	}
	c.Fn("ean.EncodeWithColor")
	la := NewLenAnalysis(fn)
	k := 0
	eachInstr(fn, func(b *ssa.BasicBlock, ins ssa.Instruction) {
		call, ok := ins.(*ssa.Call)
		if !ok {
			return
		}
		cal := call.Common().StaticCallee()
		if cal == nil || cal.Pkg == nil || shortName(cal.Pkg.Pkg.Path()) != "utils" || (cal.Name() != "New1DCodeIntCheckSumWithColor" && cal.Name() != "New1DCodeIntCheckSum") {
			return
		}
		k++
		content, sum := call.Common().Args[1], call.Common().Args[3]
		// the value read off the very string that is handed over (whatever way it was completed)
		if ok, why := isLastCharDigitValue(c, content, sum); ok && lastCharReadGuarded(c.P, fn, content, sum) {
			c.Check(R, fmt.Sprintf("ean.EncodeWithColor/ctor#%d/path#1", k), call.Pos(), true, "checksum == RuneToInt(last character of content)", why)
			c.Check(R, fmt.Sprintf("ean.EncodeWithColor/ctor#%d/path#2", k), call.Pos(), true, "checksum == RuneToInt(last character of content)", why)
			return
		}
		cases := pairCases(content, sum)
		if hc := helperPairCases(c.P, fn, call, content, sum); hc != nil {
			cases = hc
		}
		for ci, cs := range cases {
			key := fmt.Sprintf("ean.EncodeWithColor/ctor#%d/path#%d", k, ci+1)
			// feasibility: can the content on this path have a length the constructor is reached with?
			if cs.infeasible != "" {
				c.Check(R, key, call.Pos(), true, "infeasible path or matching pair", "path infeasible: "+cs.infeasible)
				continue
			}
			if cs.la != nil {
				ls := cs.la.At(cs.content, cs.blk)
				if lsDisjoint(ls, 8, 13) {
					c.Check(R, key, call.Pos(), true, "infeasible path or matching pair", "path infeasible: content length "+ls.String()+" never 8/13")
					continue
				}
			} else if cs.pred != nil {
				ls := la.OnEdge(cs.content, cs.pred, cs.succIdx)
				if lsDisjoint(ls, 8, 13) {
					c.Check(R, key, call.Pos(), true, "infeasible path or matching pair", "path infeasible: content length "+ls.String()+" never 8/13")
					continue
				}
			}
			ok, why := isLastCharDigitValue(c, cs.content, cs.sum)
			if !ok {
				// the check digit delivered together with its numeric value by one helper call
				if ok2, why2 := pairedDigitValue(c, fn, call, cs.content, cs.sum, cs.pred); ok2 {
					ok, why = true, why2
				}
			}
			c.Check(R, key, call.Pos(), ok, "checksum == RuneToInt(last character of content)", why)
		}
	})
	if k == 0 {
		c.Anchor(R, "ean.EncodeWithColor/ctor", "no New1DCodeIntCheckSum* call found")
	}
}

type pairCase struct {
	content, sum ssa.Value
	pred         *ssa.BasicBlock
	succIdx      int
	// alternatives that are returns of a helper: length facts of the helper at the return
	la         *LenAnalysis
	blk        *ssa.BasicBlock
	infeasible string
}

// helperPairCases: content and sum are two results of one call to an unexported helper of the
// package: one (content, sum) pair per return of the helper (the results of one return belong
// together). A return whose error result is non-nil is infeasible when the constructor call is
// reached only after that error was found nil.
func helperPairCases(p *Prog, fn *ssa.Function, ctor *ssa.Call, content, sum ssa.Value) []pairCase {
	ec, ok1 := content.(*ssa.Extract)
	es, ok2 := sum.(*ssa.Extract)
	if !ok1 || !ok2 || ec.Tuple != es.Tuple {
		return nil
	}
	hc, ok := ec.Tuple.(*ssa.Call)
	if !ok {
		return nil
	}
	cal := hc.Common().StaticCallee()
	if cal == nil || !isRepoFunc(cal) || cal.Blocks == nil || cal.Pkg != fn.Pkg || cal.Object() == nil || cal.Object().Exported() {
		return nil
	}
	// the status result (error or success flag), if the caller checks it before the constructor
	errIdx, okIdx := -1, -1
	res := cal.Signature.Results()
	for i := 0; i < res.Len(); i++ {
		if isErrorType(res.At(i).Type()) {
			errIdx = i
		} else if isBoolType(res.At(i).Type()) && i != ec.Index && i != es.Index {
			okIdx = i
		}
	}
	errChecked, okChecked := false, false
	for _, r := range *hc.Referrers() {
		ex, ok := r.(*ssa.Extract)
		if !ok {
			continue
		}
		n := NewNormer(p)
		rc := n.ReachCond(fn, nil, ctor.Block())
		if ex.Index == errIdx {
			n.Bind[ex] = "err"
			imp, _, _ := CondRelation(n.ReachCond(fn, nil, ctor.Block()), &Cond{Kind: CBool, Name: "Eq(err,nil)"})
			errChecked = imp
		}
		if ex.Index == okIdx {
			n.Bind[ex] = "okflag"
			n.NoInline[p.FuncName(cal)] = true
			imp, _, _ := CondRelation(n.ReachCond(fn, nil, ctor.Block()), &Cond{Kind: CBool, Name: "okflag"})
			okChecked = imp
		}
		_ = rc
	}
	la := NewLenAnalysis(cal)
	var out []pairCase
	for _, ret := range returnsOf(cal) {
		pc := pairCase{content: ret.Results[ec.Index], sum: ret.Results[es.Index], la: la, blk: ret.Block()}
		if errChecked && !isNilConst(ret.Results[errIdx]) {
			pc.infeasible = "the helper returns an error here and the caller returns before the constructor"
		}
		if okChecked {
			if k, isK := ret.Results[okIdx].(*ssa.Const); isK && k.Value != nil && k.Value.String() == "false" {
				pc.infeasible = "the helper reports failure here and the caller returns before the constructor"
			}
		}
		out = append(out, pc)
	}
	return out
}

// pairCases splits (content, sum) into per-path pairs when both are phis of the same block.
func pairCases(content, sum ssa.Value) []pairCase {
	pc, ok1 := content.(*ssa.Phi)
	ps, ok2 := sum.(*ssa.Phi)
	if ok2 && (!ok1 || pc.Block() != ps.Block()) {
		// sum varies per path, content does not
		var out []pairCase
		for i, e := range ps.Edges {
			p := ps.Block().Preds[i]
			out = append(out, pairCase{content: content, sum: e, pred: p, succIdx: succIndex(p, ps.Block())})
		}
		return out
	}
	if ok1 && ok2 {
		var out []pairCase
		for i := range pc.Edges {
			p := pc.Block().Preds[i]
			out = append(out, pairCase{content: pc.Edges[i], sum: ps.Edges[i], pred: p, succIdx: succIndex(p, pc.Block())})
		}
		return out
	}
	if ok1 {
		var out []pairCase
		for i, e := range pc.Edges {
			p := pc.Block().Preds[i]
			out = append(out, pairCase{content: e, sum: sum, pred: p, succIdx: succIndex(p, pc.Block())})
		}
		return out
	}
	return []pairCase{{content: content, sum: sum}}
}

func succIndex(p, s *ssa.BasicBlock) int {
	for i, x := range p.Succs {
		if x == s {
			return i
		}
	}
	return 0
}

// isLastCharDigitValue: sum == RuneToInt(r) where r is the last character of content:
//
//	content = X + string(r)                      and sum = RuneToInt(r)
//	sum = RuneToInt(rune(content[len(content)-1]))
func isLastCharDigitValue(c *Ctx, content, sum ssa.Value) (bool, string) {
	n := NewNormer(c.P)
	call, ok := sum.(*ssa.Call)
	if !ok || calleeFull(call) != modPath+"/utils.RuneToInt" {
		return false, "checksum is " + n.Norm(sum).String() + ", not utils.RuneToInt(...)"
	}
	r := call.Common().Args[0]
	for {
		if cv, ok := r.(*ssa.Convert); ok && isIntType(cv.X.Type()) {
			r = cv.X
			continue
		}
		break
	}
	// form 1: content = X + string(r)
	if cat, ok := content.(*ssa.BinOp); ok && cat.Op == token.ADD {
		if cv, ok := cat.Y.(*ssa.Convert); ok && isStringType(cv.Type()) && cv.X == r {
			return true, "content = X + string(r), checksum = RuneToInt(r)"
		}
		return false, "checksum is RuneToInt(" + n.Norm(r).asAtom() + ") but content ends in " + n.Norm(cat.Y).asAtom()
	}
	// form 2: r = content[len(content)-1]
	var ixX, ixI ssa.Value
	switch lk := r.(type) {
	case *ssa.Lookup:
		ixX, ixI = lk.X, lk.Index
	case *ssa.Index:
		ixX, ixI = lk.X, lk.Index
	}
	if ixX != nil && ixX == content {
		if sub, ok := ixI.(*ssa.BinOp); ok && sub.Op == token.SUB && lenArg(sub.X) == content {
			if k, ok := constInt(sub.Y); ok && k == 1 {
				return true, "checksum = RuneToInt(content[len(content)-1])"
			}
		}
		return false, "checksum digit taken from index " + n.Norm(ixI).String() + ", not len-1"
	}
	return false, "checksum is RuneToInt(" + n.Norm(r).asAtom() + "), not the last character of content " + n.Norm(content).asAtom()
}

// pairedDigitValue: sum and the last character of content are two results of ONE call of a helper
// that hands out a digit rune together with its value:
//
//	r, v := H(x)   where every return of H yields (IntToRune(w), w) or a constant pair (c, RuneToInt(c))
//
// (B4 pins the values passed to IntToRune to 0..9, so RuneToInt(IntToRune(w)) == w), and either
// content = X + string(r), or the constructor is only reached after X + string(r) == content was
// checked. Then sum == RuneToInt(last character of content).
func pairedDigitValue(c *Ctx, fn *ssa.Function, ctor *ssa.Call, content, sum ssa.Value, pred *ssa.BasicBlock) (bool, string) {
	es, ok := sum.(*ssa.Extract)
	if !ok {
		return false, ""
	}
	hc, ok := es.Tuple.(*ssa.Call)
	if !ok {
		return false, ""
	}
	H := hc.Common().StaticCallee()
	if H == nil || !isRepoFunc(H) || H.Blocks == nil {
		return false, ""
	}
	// the rune result of the same call
	var er *ssa.Extract
	for _, r := range *hc.Referrers() {
		if ex, ok := r.(*ssa.Extract); ok && ex != es {
			if b, isB := ex.Type().Underlying().(*types.Basic); isB && b.Kind() == types.Int32 {
				er = ex
			}
		}
	}
	if er == nil {
		return false, ""
	}
	for _, ret := range returnsOf(H) {
		rv, vv := ret.Results[er.Index], ret.Results[es.Index]
		if call, ok := rv.(*ssa.Call); ok && calleeFull(call) == modPath+"/utils.IntToRune" && call.Common().Args[0] == vv {
			continue
		}
		kr, ok1 := rv.(*ssa.Const)
		kv, ok2 := vv.(*ssa.Const)
		if ok1 && ok2 && kr.Value != nil && kv.Value != nil {
			r, _ := constant.Int64Val(constant.ToInt(kr.Value))
			v, _ := constant.Int64Val(constant.ToInt(kv.Value))
			want := int64(-1) // utils.RuneToInt of a rune that is not a digit (pinned by the RuneToInt rule)
			if r >= '0' && r <= '9' {
				want = r - '0'
			}
			if v == want {
				continue
			}
		}
		return false, "helper " + c.P.FuncName(H) + " returns a rune and a value that are not a digit and its value at " + c.P.Pos(ret.Pos())
	}
	isStrOfR := func(v ssa.Value) bool {
		cv, ok := v.(*ssa.Convert)
		return ok && isStringType(cv.Type()) && cv.X == ssa.Value(er)
	}
	// content = X + string(r)
	if cat, ok := content.(*ssa.BinOp); ok && cat.Op == token.ADD && isStrOfR(cat.Y) {
		return true, "content = X + string(r) with (r, checksum) one digit/value pair of " + c.P.FuncName(H)
	}
	// or: reached only when X + string(r) == content
	n := NewNormer(c.P)
	rc := n.ReachCond(fn, nil, ctor.Block())
	if pred != nil {
		rc = n.ReachCond(fn, nil, pred) // this alternative of (content, checksum): the path through pred
	}
	var found bool
	eachInstr(fn, func(b *ssa.BasicBlock, ins ssa.Instruction) {
		bo, ok := ins.(*ssa.BinOp)
		if !ok || (bo.Op != token.EQL && bo.Op != token.NEQ) {
			return
		}
		for _, pair := range [][2]ssa.Value{{bo.X, bo.Y}, {bo.Y, bo.X}} {
			cat, ok := pair[0].(*ssa.BinOp)
			if !ok || cat.Op != token.ADD || !isStrOfR(cat.Y) || pair[1] != content {
				continue
			}
			same := n.CondOf(bo)
			if bo.Op == token.NEQ {
				same = cNot(same)
			}
			if imp, _, _ := CondRelation(rc, same); imp {
				found = true
			}
		}
	})
	if found {
		return true, "constructor reached only when X + string(r) == content, with (r, checksum) one digit/value pair of " + c.P.FuncName(H)
	}
	return false, ""
}

// ---------------------------------------------------------------------------------------------
// MOD10 sibling rule: every function that turns a weighted digit sum into a check digit
// (result flows into utils.IntToRune) must compute s -> (10 - s mod 10) mod 10, with weight 3 on
// the right-most data digit.

func evalTree(v ssa.Value, env map[ssa.Value]int64, depth int) (int64, bool) {
	if x, ok := env[v]; ok {
		return x, true
	}
	if depth > 12 {
		return 0, false
	}
	switch x := v.(type) {
	case *ssa.Const:
		if x.Value != nil && x.Value.Kind() == constant.Int {
			i, ok := constant.Int64Val(x.Value)
			return i, ok
		}
		if x.Value != nil && x.Value.Kind() == constant.Bool {
			if constant.BoolVal(x.Value) {
				return 1, true
			}
			return 0, true
		}
	case *ssa.Convert:
		if isIntType(x.Type()) && isIntType(x.X.Type()) {
			return evalTree(x.X, env, depth+1)
		}
	case *ssa.UnOp:
		if x.Op == token.NOT {
			a, ok := evalTree(x.X, env, depth+1)
			return 1 - a, ok
		}
		if x.Op == token.SUB {
			a, ok := evalTree(x.X, env, depth+1)
			return -a, ok
		}
	case *ssa.BinOp:
		a, ok1 := evalTree(x.X, env, depth+1)
		b, ok2 := evalTree(x.Y, env, depth+1)
		if !ok1 || !ok2 {
			return 0, false
		}
		bo := func(t bool) (int64, bool) {
			if t {
				return 1, true
			}
			return 0, true
		}
		switch x.Op {
		case token.ADD:
			return a + b, true
		case token.SUB:
			return a - b, true
		case token.MUL:
			return a * b, true
		case token.QUO:
			if b == 0 {
				return 0, false
			}
			return a / b, true
		case token.REM:
			if b == 0 {
				return 0, false
			}
			return a % b, true
		case token.EQL:
			return bo(a == b)
		case token.NEQ:
			return bo(a != b)
		case token.LSS:
			return bo(a < b)
		case token.LEQ:
			return bo(a <= b)
		case token.GTR:
			return bo(a > b)
		case token.GEQ:
			return bo(a >= b)
		}
	}
	return 0, false
}

// leaves returns the non-constant leaves of an arithmetic expression tree.
func treeLeaves(v ssa.Value, out map[ssa.Value]bool, depth int) {
	if depth > 12 {
		out[v] = true
		return
	}
	switch x := v.(type) {
	case *ssa.Const:
	case *ssa.Convert:
		if isIntType(x.Type()) && isIntType(x.X.Type()) {
			treeLeaves(x.X, out, depth+1)
		} else {
			out[v] = true
		}
	case *ssa.UnOp:
		if x.Op == token.NOT || x.Op == token.SUB {
			treeLeaves(x.X, out, depth+1)
		} else {
			out[v] = true
		}
	case *ssa.BinOp:
		treeLeaves(x.X, out, depth+1)
		treeLeaves(x.Y, out, depth+1)
	default:
		out[v] = true
	}
}

func ruleMod10(c *Ctx) {
	const R = "B4-MOD10"
	c.Doc(R, "every value passed to utils.IntToRune that is computed from a loop-accumulated digit sum s is, as a function of s (tabulated over the residues, s >= 0 by the lower-bound domain), s -> (10 - s mod 10) mod 10; the accumulator adds 3*d when the toggle is set and d otherwise; the toggle starts true iff the length is odd (weight 3 on the right-most digit) and flips every digit")
	c.Floor(R, 8)
	target := c.P.Func("utils.IntToRune")
	if target == nil {
		c.Anchor(R, "utils.IntToRune", "function not found")
		return
	}
	sites := 0
	for _, fn := range append(append([]*ssa.Function{}, c.P.Funcs...), c.P.CanaryFuncs...) {
		for _, call := range callsTo(fn, target) {
			arg := call.Common().Args[0]
			lv := map[ssa.Value]bool{}
			treeLeaves(arg, lv, 0)
			// the final reduction moved into a helper that receives the sum: the helper's parameter stands
			// for the expression passed at its only call site
			var viaParam *ssa.Parameter
			var viaArg ssa.Value
			if len(lv) == 1 {
				for l := range lv {
					if p, isP := l.(*ssa.Parameter); isP && p.Parent() == fn {
						if sites := c.P.callSitesOf(fn); len(sites) == 1 {
							for i, q := range fn.Params {
								if q == p && i < len(sites[0].Common().Args) {
									viaParam, viaArg = p, sites[0].Common().Args[i]
								}
							}
						}
					}
				}
			}
			accFn := fn
			if viaParam != nil {
				accFn = viaArg.(ssa.Instruction).Parent()
				lv = map[ssa.Value]bool{}
				treeLeaves(viaArg, lv, 0)
			}
			var accs []*ssa.Phi
			allPhi := len(lv) > 0
			for l := range lv {
				p, ok := l.(*ssa.Phi)
				if !ok || (len(accs) > 0 && p.Block() != accs[0].Block()) {
					allPhi = false
					break
				}
				accs = append(accs, p)
			}
			name := c.P.FuncName(accFn)
			if !allPhi || len(accs) == 0 || len(accs) > 2 {
				continue // not a sum -> check digit conversion
			}
			sort.Slice(accs, func(i, j int) bool { return accs[i].Name() < accs[j].Name() })
			sites++
			c.Fn(name)
			// (b) accumulator structure: per accumulator the multiple of the digit added when the toggle
			// is set / clear
			coef := checkAccumulator(c, R, accFn, accs)
			if coef == nil {
				continue
			}
			// (a) transfer table: the result as a function of the accumulators is
			// s -> (10 - s mod 10) mod 10 of s = sum of c_i * acc_i, where the c_i make the digit count
			// 3 times when the toggle is set and once when it is clear
			okT, found := false, "no combination of the accumulators gives weight 3 / weight 1"
			for c0 := int64(1); c0 <= 3 && !okT; c0++ {
				for c1 := int64(1); c1 <= 3 && !okT; c1++ {
					cs := []int64{c0, c1}
					var wT, wN int64
					for i := range accs {
						wT += cs[i] * coef[i][0]
						wN += cs[i] * coef[i][1]
					}
					if wT != 3 || wN != 1 {
						continue
					}
					good := true
					bad := ""
					lim := int64(40)
					if len(accs) == 2 {
						lim = 14
					}
					for a := int64(0); a < lim && good; a++ {
						for b := int64(0); b < lim && good; b++ {
							if len(accs) == 1 && b > 0 {
								break
							}
							env := map[ssa.Value]int64{accs[0]: a}
							s := cs[0] * a
							if len(accs) == 2 {
								env[accs[1]] = b
								s += cs[1] * b
							}
							if viaParam != nil {
								pv, okP := evalTree(viaArg, env, 0)
								if !okP {
									good = false
									bad = "the value handed to the reducing helper is not an arithmetic expression of the sums"
									break
								}
								env = map[ssa.Value]int64{viaParam: pv}
							}
							got, ok := evalTree(arg, env, 0)
							want := (10 - s%10) % 10
							if !ok || got != want {
								good = false
								bad = fmt.Sprintf("weighted sum %d -> %d (want %d)", s, got, want)
							}
						}
					}
					if good {
						okT, found = true, "ok"
					} else {
						found = bad
					}
					if len(accs) == 1 {
						break
					}
				}
			}
			n := NewNormer(c.P)
			for i, a := range accs {
				n.Bind[a] = fmt.Sprintf("s%d", i)
			}
			c.Check(R, name+"/transfer", call.Pos(), okT, "s -> (10 - s mod 10) mod 10 of the weighted digit sum", fmt.Sprintf("%s; %s", n.Norm(arg), found))
		}
	}
	c.Count["check_digit_functions"] = sites
}

func orOK(s string) string {
	if s == "" {
		return "none"
	}
	return s
}

// checkAccumulator returns, per accumulator, the multiple of the digit it gains when the toggle is
// set and when it is clear (nil when undecided).
func checkAccumulator(c *Ctx, R string, fn *ssa.Function, accs []*ssa.Phi) [][2]int64 {
	acc := accs[0]
	name := c.P.FuncName(fn)
	header := acc.Block()
	// toggle: a bool phi in the same header whose back-edge value is !phi
	var toggle *ssa.Phi
	for _, ins := range header.Instrs {
		p, ok := ins.(*ssa.Phi)
		if !ok {
			break
		}
		if isBoolType(p.Type()) {
			toggle = p
		}
	}
	// digit value: call to utils.RuneToInt inside the loop
	var digit ssa.Value
	eachInstr(fn, func(b *ssa.BasicBlock, ins ssa.Instruction) {
		if call, ok := ins.(*ssa.Call); ok && calleeFull(call) == modPath+"/utils.RuneToInt" && header.Dominates(b) {
			digit = call
		}
	})
	digitFn, digitCall := fn, (*ssa.Call)(nil)
	if digit != nil {
		digitCall = digit.(*ssa.Call)
	} else {
		// the digit value as one result of a helper that converts the rune (and reports membership)
		eachInstr(fn, func(b *ssa.BasicBlock, ins ssa.Instruction) {
			ex, ok := ins.(*ssa.Extract)
			if !ok || !header.Dominates(b) || !isIntType(ex.Type()) || digit != nil {
				return
			}
			hc, ok := ex.Tuple.(*ssa.Call)
			if !ok {
				return
			}
			cal := hc.Common().StaticCallee()
			if cal == nil || !isRepoFunc(cal) || cal.Blocks == nil {
				return
			}
			for _, ret := range returnsOf(cal) {
				if ex.Index < len(ret.Results) {
					if rc, ok := ret.Results[ex.Index].(*ssa.Call); ok && calleeFull(rc) == modPath+"/utils.RuneToInt" {
						if p, isP := rc.Common().Args[0].(*ssa.Parameter); isP && p.Parent() == cal {
							digit, digitFn, digitCall = ex, cal, rc
						}
					}
				}
			}
		})
	}
	if digit == nil {
		c.Undecided(R, name+"/digit", acc.Pos(), "no utils.RuneToInt call in the loop")
		return nil
	}
	okNN, whyNN := digitNonNeg(c, digitFn, digitCall)
	c.Check(R, name+"/digit-nonneg", digit.Pos(), okNN, "digit value proven >= 0 where it is added (sign guard, or membership in a table with digit keys only)", whyNN)
	var entryIdx, backIdx = -1, -1
	for i, p := range header.Preds {
		if header.Dominates(p) {
			backIdx = i
		} else {
			entryIdx = i
		}
	}
	if entryIdx < 0 || backIdx < 0 || len(header.Preds) != 2 {
		c.Undecided(R, name+"/loop", acc.Pos(), "accumulator loop does not have one entry and one back edge")
		return nil
	}
	for _, a := range accs {
		if k, ok := constInt(a.Edges[entryIdx]); !ok || k != 0 {
			c.Check(R, name+"/sum-init", a.Pos(), false, "sum starts at 0", a.Edges[entryIdx].String())
		}
	}
	if toggle == nil {
		// no boolean toggle: a two-valued weight (or state) variable that alternates
		return checkWeightToggle(c, R, fn, name, accs, header, digit, entryIdx, backIdx)
	}
	// flip
	flip := false
	if u, ok := toggle.Edges[backIdx].(*ssa.UnOp); ok && u.Op == token.NOT && u.X == toggle {
		flip = true
	}
	c.Check(R, name+"/toggle-flips", toggle.Pos(), flip, "toggle' = !toggle on the back edge", toggle.Edges[backIdx].String())
	// init: true iff length odd
	initV := toggle.Edges[entryIdx]
	lv := map[ssa.Value]bool{}
	treeLeaves(initV, lv, 0)
	var lenLeaf ssa.Value
	for l := range lv {
		if lenArg(l) != nil && len(lv) == 1 {
			lenLeaf = l
		}
	}
	if lenLeaf == nil {
		c.Undecided(R, name+"/toggle-init", toggle.Pos(), "toggle start value is not a function of len(input) alone")
	} else {
		domain := []int64{1, 2, 3, 4, 5, 6, 7, 8, 9, 10, 11, 12, 13, 14}
		if shortName(fn.Pkg.Pkg.Path()) == "ean" {
			domain = []int64{7, 12} // N3-LEN establishes that only these lengths arrive
		}
		ok := true
		bad := ""
		for _, nlen := range domain {
			got, okE := evalTree(initV, map[ssa.Value]int64{lenLeaf: nlen}, 0)
			want := nlen % 2
			if !okE || got != want {
				ok = false
				bad += fmt.Sprintf(" len=%d->%d", nlen, got)
			}
		}
		n := NewNormer(c.P)
		c.Check(R, name+"/toggle-init", toggle.Pos(), ok, fmt.Sprintf("true iff len odd on lengths %v (weight 3 lands on the right-most digit)", domain), n.CondOf(initV).String()+bad)
	}
	// increments per toggle polarity
	body := header.Succs[0]
	T := &Cond{Kind: CBool, Name: "T"}
	out := make([][2]int64, len(accs))
	seenT, seenNT := false, false
	for ai, a := range accs {
		next := a.Edges[backIdx]
		n := NewNormer(c.P)
		n.Root = fn
		n.Bind[a] = "s"
		n.Bind[digit] = "d"
		n.Bind[toggle] = "T"
		for _, cs := range n.valueCases(fn, body, next, 0) {
			inc := pAdd(cs.val, pAtom("s"), -1)
			// the increment must be a constant multiple of the digit
			var k int64
			switch {
			case len(inc) == 0:
				k = 0
			case len(inc) == 1 && inc["d"] != 0:
				k = inc["d"]
			default:
				c.Check(R, fmt.Sprintf("%s/increment#%d", name, ai+1), a.Pos(), false, "the sum grows by a multiple of the digit", "s' - s = "+inc.String()+" when "+cs.cond.String())
				return nil
			}
			impT, _, _ := CondRelation(cs.cond, T)
			impNT, _, _ := CondRelation(cs.cond, cNot(T))
			switch {
			case impT && impNT: // infeasible
			case impT:
				out[ai][0] = k
				seenT = true
			case impNT:
				out[ai][1] = k
				seenNT = true
			default:
				// independent of the toggle
				if eqT, _ := CondEquivalent(cAnd(cs.cond, T), cFalse); !eqT {
					out[ai][0] = k
					seenT = true
				}
				if eqN, _ := CondEquivalent(cAnd(cs.cond, cNot(T)), cFalse); !eqN {
					out[ai][1] = k
					seenNT = true
				}
			}
		}
	}
	var wT, wN int64
	for _, o := range out {
		wT += o[0]
		wN += o[1]
	}
	c.Check(R, name+"/increment", acc.Pos(), seenT && seenNT && wT > 0 && wN > 0, "the digit is added on both toggle polarities", fmt.Sprintf("multiples of the digit per accumulator (toggle set, clear): %v", out))
	return out
}

// checkWeightToggle: the alternation is carried by an integer loop variable with two states (for
// example the weight itself, 3 / 1). The states are taken from the variable's start value, the
// back-edge value must map each state to the other one, the start state must be a function of the
// input length that selects the same state for all odd lengths (that state plays the role of "toggle
// set") and the other one for all even lengths; the increments are read per state.
func checkWeightToggle(c *Ctx, R string, fn *ssa.Function, name string, accs []*ssa.Phi, header *ssa.BasicBlock, digit ssa.Value, entryIdx, backIdx int) [][2]int64 {
	acc := accs[0]
	isAcc := map[*ssa.Phi]bool{}
	for _, a := range accs {
		isAcc[a] = true
	}
	n := NewNormer(c.P)
	n.Root = fn
	if len(fn.Params) > 0 {
		n.Bind[fn.Params[0]] = "code"
	}
	var tog *ssa.Phi
	var initCases []valCase
	var st [2]int64
	for _, ins := range header.Instrs {
		p, ok := ins.(*ssa.Phi)
		if !ok {
			break
		}
		if isAcc[p] || !isIntType(p.Type()) {
			continue
		}
		cases := n.valueCases(fn, nil, p.Edges[entryIdx], 0)
		vals := map[int64]bool{}
		allConst := len(cases) > 0
		for _, cs := range cases {
			k, ok := cs.val.IsConst()
			if !ok {
				allConst = false
				break
			}
			vals[k] = true
		}
		if !allConst || len(vals) != 2 {
			continue
		}
		var ks []int64
		for k := range vals {
			ks = append(ks, k)
		}
		sort.Slice(ks, func(i, j int) bool { return ks[i] < ks[j] })
		next := func(v int64) (int64, bool) {
			n.env = append(n.env, map[ssa.Value]Poly{p: pConst(v)})
			defer func() { n.env = n.env[:len(n.env)-1] }()
			cs := n.valueCases(fn, header.Succs[0], p.Edges[backIdx], 0)
			if len(cs) != 1 {
				return 0, false
			}
			return cs[0].val.IsConst()
		}
		a, okA := next(ks[0])
		b, okB := next(ks[1])
		if okA && okB && a == ks[1] && b == ks[0] {
			tog, initCases, st = p, cases, [2]int64{ks[0], ks[1]}
		}
	}
	if tog == nil {
		if out := checkPositionalWeights(c, R, fn, name, accs, header, digit, backIdx); out != nil {
			return out
		}
		c.Undecided(R, name+"/toggle", acc.Pos(), "no boolean toggle, no alternating two-state variable and no weight by position parity next to the accumulator")
		return nil
	}
	c.Check(R, name+"/toggle-flips", tog.Pos(), true, "the state variable alternates between its two values on the back edge", fmt.Sprintf("%d <-> %d", st[0], st[1]))
	// start state per input length
	domain := []int64{1, 2, 3, 4, 5, 6, 7, 8, 9, 10, 11, 12, 13, 14}
	if shortName(fn.Pkg.Pkg.Path()) == "ean" {
		domain = []int64{7, 12} // N3-LEN establishes that only these lengths arrive
	}
	stateAt := func(L int64) (int64, bool) {
		cl := MustRefCond(fmt.Sprintf("len(code) == %d", L))
		var got []int64
		for _, cs := range initCases {
			if imp, _, _ := CondRelation(cl, cs.cond); imp {
				k, _ := cs.val.IsConst()
				got = append(got, k)
			} else if holds, ok := condAtLen(cs.cond, "code", L); ok && holds {
				// the start state picked by a remainder or quotient of the length
				k, _ := cs.val.IsConst()
				got = append(got, k)
			}
		}
		if len(got) != 1 {
			return 0, false
		}
		return got[0], true
	}
	var X, Y int64
	haveX := false
	okInit, bad := true, ""
	for _, L := range domain {
		s, ok := stateAt(L)
		if !ok {
			okInit = false
			bad += fmt.Sprintf(" len=%d->?", L)
			continue
		}
		if L%2 == 1 && !haveX {
			X, haveX = s, true
			Y = st[0] + st[1] - s
		}
	}
	if !haveX {
		c.Undecided(R, name+"/toggle-init", tog.Pos(), "start state is not decided by len(input)")
		return nil
	}
	for _, L := range domain {
		s, ok := stateAt(L)
		want := Y
		if L%2 == 1 {
			want = X
		}
		if ok && s != want {
			okInit = false
			bad += fmt.Sprintf(" len=%d->%d", L, s)
		}
	}
	c.Check(R, name+"/toggle-init", tog.Pos(), okInit, fmt.Sprintf("one start state for odd and the other for even lengths %v (weight 3 lands on the right-most digit)", domain), fmt.Sprintf("odd:%d even:%d%s", X, Y, bad))
	body := header.Succs[0]
	out := make([][2]int64, len(accs))
	okInc := true
	for ai, a := range accs {
		for si, sv := range []int64{X, Y} {
			m := NewNormer(c.P)
			m.Root = fn
			m.Bind[a] = "s"
			m.Bind[digit] = "d"
			m.env = append(m.env, map[ssa.Value]Poly{tog: pConst(sv)})
			seen := false
			for _, cs := range m.valueCases(fn, body, a.Edges[backIdx], 0) {
				if eq, _ := CondEquivalent(cs.cond, cFalse); eq {
					continue
				}
				inc := pAdd(cs.val, pAtom("s"), -1)
				var k int64
				switch {
				case len(inc) == 0:
					k = 0
				case len(inc) == 1 && inc["d"] != 0:
					k = inc["d"]
				default:
					c.Check(R, fmt.Sprintf("%s/increment#%d", name, ai+1), a.Pos(), false, "the sum grows by a multiple of the digit", "s' - s = "+inc.String()+" when "+cs.cond.String())
					return nil
				}
				if seen && out[ai][si] != k {
					c.Check(R, fmt.Sprintf("%s/increment#%d", name, ai+1), a.Pos(), false, "one multiple of the digit per state", fmt.Sprintf("%d and %d in state %d", out[ai][si], k, sv))
					return nil
				}
				out[ai][si], seen = k, true
			}
			if !seen {
				okInc = false
			}
		}
	}
	var wT, wN int64
	for _, o := range out {
		wT += o[0]
		wN += o[1]
	}
	c.Check(R, name+"/increment", acc.Pos(), okInc && wT > 0 && wN > 0, "the digit is added in both states", fmt.Sprintf("multiples of the digit per accumulator (odd-length start state, other state): %v", out))
	return out
}

// checkPositionalWeights: no carried state at all - the weight of a digit is decided from the parity of
// its position and the length of the input. The increments are read per (length, parity); "toggle
// set" is then the parity of the right-most position, so the caller's requirement "3 when set, 1 when
// clear" says: the right-most digit counts three times and the weights alternate from there.
func checkPositionalWeights(c *Ctx, R string, fn *ssa.Function, name string, accs []*ssa.Phi, header *ssa.BasicBlock, digit ssa.Value, backIdx int) [][2]int64 {
	// the position: key of a range over the input, or the index of a counting loop from 0
	var pos ssa.Value
	for _, ins := range header.Instrs {
		if nx, ok := ins.(*ssa.Next); ok && nx.IsString {
			for _, r := range *nx.Referrers() {
				if ex, ok := r.(*ssa.Extract); ok && ex.Index == 1 {
					pos = ex
				}
			}
		}
	}
	if pos == nil {
		if idx, _, init, ok := loopIndex(header); ok && init == 0 {
			pos = idx
		}
	}
	if pos == nil || len(fn.Params) == 0 {
		return nil
	}
	domain := []int64{1, 2, 3, 4, 5, 6, 7, 8, 9, 10, 11, 12, 13, 14}
	if shortName(fn.Pkg.Pkg.Path()) == "ean" {
		domain = []int64{7, 12} // N3-LEN establishes that only these lengths arrive
	}
	body := header.Succs[0]
	out := make([][2]int64, len(accs))
	set := make([][2]bool, len(accs))
	for ai, a := range accs {
		n := NewNormer(c.P)
		n.Root = fn
		n.Bind[fn.Params[0]] = "code"
		n.Bind[a], n.Bind[digit], n.Bind[pos] = "s", "d", "pos"
		cases := n.valueCases(fn, body, a.Edges[backIdx], 0)
		usesParity := false
		for _, cs := range cases {
			if strings.Contains(cs.cond.String(), "Mod(pos,2)") {
				usesParity = true
			}
		}
		if !usesParity && len(accs) == 1 {
			return nil
		}
		for _, L := range domain {
			for par := int64(0); par < 2; par++ {
				var ks []int64
				for _, cs := range cases {
					if !evalCond(cs.cond, map[string]int64{"len(code)": L, "Mod(pos,2)": par, "d": 5, "pos": par}, nil) {
						continue
					}
					inc := pAdd(cs.val, pAtom("s"), -1)
					switch {
					case len(inc) == 0:
						ks = append(ks, 0)
					case len(inc) == 1 && inc["d"] != 0:
						ks = append(ks, inc["d"])
					default:
						c.Check(R, fmt.Sprintf("%s/increment#%d", name, ai+1), a.Pos(), false, "the sum grows by a multiple of the digit", "s' - s = "+inc.String()+" when "+cs.cond.String())
						return nil
					}
				}
				if len(ks) != 1 {
					c.Undecided(R, fmt.Sprintf("%s/increment#%d", name, ai+1), a.Pos(), fmt.Sprintf("%d alternatives at length %d, position parity %d", len(ks), L, par))
					return nil
				}
				si := 1
				if par == (L-1)%2 {
					si = 0 // the parity of the right-most position
				}
				if set[ai][si] && out[ai][si] != ks[0] {
					c.Check(R, name+"/toggle-init", a.Pos(), false, "the same weight on the right-most digit for every admissible length", fmt.Sprintf("length %d gives %d, another length %d", L, ks[0], out[ai][si]))
					return nil
				}
				out[ai][si], set[ai][si] = ks[0], true
			}
		}
	}
	c.Check(R, name+"/toggle-flips", accs[0].Pos(), true, "the weight is a function of the position parity: it alternates by construction", "by position parity")
	c.Check(R, name+"/toggle-init", accs[0].Pos(), true, "the right-most position carries the first weight for every admissible length", fmt.Sprint(domain))
	var wT, wN int64
	for _, o := range out {
		wT += o[0]
		wN += o[1]
	}
	c.Check(R, name+"/increment", accs[0].Pos(), wT > 0 && wN > 0, "the digit is added at both parities", fmt.Sprintf("multiples of the digit per accumulator (right-most parity, other parity): %v", out))
	return out
}

func init() {
	canaries = append(canaries, canary{Pkg: "ean", Rule: "N3-LEN", Src: `
func zzVerifCanaryLen(code string) rune {
	if len(code) == 8 {
		return calcCheckNum(code)
	}
	return 0
}`})
	canaryExpect["N3-LEN"] = []string{"zzVerifCanaryLen"}
}

// digitNonNeg: the result of utils.RuneToInt(r) is >= 0 at every use: all uses are dominated by
// the non-negative edge of a sign test on it, or the call is dominated by the ok-edge of a
// lookup of r in a package-level map whose keys are all digits.
func digitNonNeg(c *Ctx, fn *ssa.Function, call *ssa.Call) (bool, string) {
	r := call.Common().Args[0]
	// (ii) table membership
	for _, b := range fn.Blocks {
		iff, ok := b.Instrs[len(b.Instrs)-1].(*ssa.If)
		if !ok {
			continue
		}
		ex, ok := iff.Cond.(*ssa.Extract)
		if !ok || ex.Index != 1 {
			continue
		}
		lk, ok := ex.Tuple.(*ssa.Lookup)
		if !ok || !lk.CommaOk || lk.Index != r {
			continue
		}
		ld, ok := lk.X.(*ssa.UnOp)
		if !ok {
			continue
		}
		g, ok := ld.X.(*ssa.Global)
		if !ok {
			continue
		}
		if !b.Succs[0].Dominates(call.Block()) || len(b.Succs[0].Preds) != 1 {
			continue
		}
		tbl, err := c.P.EvalVar(shortName(g.Pkg.Pkg.Path()), g.Name())
		if err != nil || tbl.Kind != VMap {
			continue
		}
		all := len(tbl.Map) > 0
		for _, e := range tbl.Map {
			if e.K.Kind != VInt || e.K.I < '0' || e.K.I > '9' {
				all = false
			}
		}
		if all {
			return true, "guarded by membership in " + g.Name() + " whose keys are digits only"
		}
	}
	// (iii) an earlier pass over the same string that returns unless every character converts to a
	// non-negative value: this loop is only reached when that pass ran to its end
	if ex, ok := r.(*ssa.Extract); ok && ex.Index == 2 {
		if nx, ok := ex.Tuple.(*ssa.Next); ok && nx.IsString {
			if rng, ok := nx.Iter.(*ssa.Range); ok {
				found := false
				eachInstr(fn, func(b *ssa.BasicBlock, ins ssa.Instruction) {
					nx1, ok := ins.(*ssa.Next)
					if !ok || found || nx1 == nx || !nx1.IsString {
						return
					}
					rng1, ok := nx1.Iter.(*ssa.Range)
					if !ok || rng1.X != rng.X || len(b.Succs) != 2 {
						return
					}
					done := b.Succs[1]
					if len(done.Preds) != 1 || !done.Dominates(call.Block()) {
						return
					}
					for _, c1 := range callsTo(fn, call.Common().StaticCallee()) {
						e1, ok := c1.Common().Args[0].(*ssa.Extract)
						if !ok || e1.Tuple != ssa.Value(nx1) || e1.Index != 2 || !inLoopBody(b, c1.Block()) {
							continue
						}
						n1 := NewNormer(c.P)
						n1.Bind[c1] = "d"
						all := true
						any := false
						for _, p := range b.Preds {
							if !b.Dominates(p) {
								continue
							}
							any = true
							if imp, _, _ := CondRelation(n1.ReachCond(fn, c1.Block(), p), MustRefCond("d >= 0")); !imp {
								all = false
							}
						}
						if all && any {
							found = true
						}
					}
				})
				if found {
					return true, "an earlier pass over the same string returns unless every character has a non-negative value"
				}
			}
		}
	}
	// (i) sign guard dominating every arithmetic use
	n := NewNormer(c.P)
	n.Bind[call] = "d"
	nonneg := MustRefCond("d >= 0")
	for _, ref := range *call.Referrers() {
		if _, ok := ref.(*ssa.DebugRef); ok {
			continue
		}
		if bo, ok := ref.(*ssa.BinOp); ok {
			switch bo.Op {
			case token.LSS, token.GTR, token.LEQ, token.GEQ, token.EQL, token.NEQ:
				continue // the tests themselves
			}
		}
		rc := n.ReachCond(fn, call.Block(), ref.Block())
		if ref.Block() == call.Block() {
			return false, "digit used before any sign test"
		}
		imp, _, w := CondRelation(rc, nonneg)
		if !imp {
			return false, "a use is reachable with a negative digit value: " + w
		}
	}
	return true, "every use is behind a sign test"
}

// condAtLen evaluates a condition whose only unknowns are len(<name>) and remainders / quotients of it
// by constants, at the given length. ok=false when the condition mentions anything else.
func condAtLen(cd *Cond, name string, L int64) (holds, ok bool) {
	cv := &condVars{bases: map[string]map[int64]bool{}, bools: map[string]bool{}}
	collect(cd, cv)
	if len(cv.bools) > 0 {
		return false, false
	}
	ln := "len(" + name + ")"
	bv := map[string]int64{}
	for b := range cv.bases {
		switch {
		case b == ln:
			bv[b] = L
		case strings.HasPrefix(b, "Mod("+ln+",") && strings.HasSuffix(b, ")"):
			k, err := strconv.ParseInt(b[len("Mod("+ln+","):len(b)-1], 10, 64)
			if err != nil || k <= 0 {
				return false, false
			}
			bv[b] = L % k
		case strings.HasPrefix(b, "Div("+ln+",") && strings.HasSuffix(b, ")"):
			k, err := strconv.ParseInt(b[len("Div("+ln+","):len(b)-1], 10, 64)
			if err != nil || k <= 0 {
				return false, false
			}
			bv[b] = L / k
		default:
			return false, false
		}
	}
	return evalCond(cd, bv, nil), true
}

// lastCharReadGuarded: where the last character of content is read (the RuneToInt call sum), content
// is known to be non-empty - the way there implies len(content) >= 1 (an unguarded content[len-1]
// panics for the empty string).
func lastCharReadGuarded(p *Prog, fn *ssa.Function, content, sum ssa.Value) bool {
	call, ok := sum.(*ssa.Call)
	if !ok || call.Parent() != fn {
		return false
	}
	n := NewNormer(p)
	n.Bind[content] = "content"
	reach := n.ReachCond(fn, nil, call.Block())
	imp, _, _ := CondRelation(reach, MustRefCond("len(content) >= 1"))
	return imp
}
