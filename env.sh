# sourced by every registered command: offline Go environment
export GOFLAGS=-mod=mod GOPROXY=off GOSUMDB=off GOTOOLCHAIN=local
unset GOWORK
